//! Sync counterpart of task.rs for the de-asynced twin tree: `spawn(x)` receives the already
//! evaluated block, `spawn_blocking(f)` runs `f`; "awaiting" the handle is the identity, so both
//! return what `handle.await` would have returned.
#[derive(Debug)]
pub struct JoinError;
impl core::fmt::Display for JoinError {
    fn fmt(&self, _f: &mut core::fmt::Formatter<'_>) -> core::fmt::Result {
        Ok(())
    }
}
impl std::error::Error for JoinError {}
impl From<JoinError> for std::io::Error {
    fn from(_: JoinError) -> Self {
        std::io::Error::from(std::io::ErrorKind::Other)
    }
}
pub type JoinHandle<T> = Result<T, JoinError>;

pub fn spawn_blocking<F, R>(f: F) -> Result<R, JoinError>
where
    F: FnOnce() -> R,
{
    Ok(f())
}
pub fn spawn<T>(v: T) -> Result<T, JoinError> {
    Ok(v)
}
