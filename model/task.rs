//! `tokio::task` / `tokio::spawn` stand-ins: the task runs inline at the spawn point (one legal
//! schedule; others are outside every claim).

use core::future::Future;
use core::pin::Pin;
use core::task::{Context, Poll};

#[derive(Debug)]
pub struct JoinError;
impl core::fmt::Display for JoinError {
    fn fmt(&self, _f: &mut core::fmt::Formatter<'_>) -> core::fmt::Result {
        Ok(())
    }
}
impl std::error::Error for JoinError {}
impl From<JoinError> for std::io::Error {
    fn from(_: JoinError) -> Self {
        std::io::Error::from(std::io::ErrorKind::Other)
    }
}

/// The task has already run to completion when the handle is created (inline schedule).
#[derive(Debug)]
pub struct JoinHandle<T>(Option<T>);
impl<T: Unpin> Future for JoinHandle<T> {
    type Output = Result<T, JoinError>;
    fn poll(mut self: Pin<&mut Self>, _cx: &mut Context<'_>) -> Poll<Self::Output> {
        Poll::Ready(Ok(self.0.take().unwrap()))
    }
}
impl<T> JoinHandle<T> {
    pub fn abort(&self) {}
    pub fn is_finished(&self) -> bool {
        true
    }
}

pub fn spawn_blocking<F, R>(f: F) -> JoinHandle<R>
where
    F: FnOnce() -> R + Send + 'static,
    R: Send + 'static,
{
    JoinHandle(Some(f()))
}

/// `tokio::spawn`: the spawned future is driven to completion at the spawn point.
pub fn spawn<F>(fut: F) -> JoinHandle<F::Output>
where
    F: Future + Send + 'static,
    F::Output: Send + 'static,
{
    JoinHandle(Some(super::fs::block_on(fut)))
}
