//! cfg(kani) replacement of `server/src/streaming/segments/logs/persister_task.rs` (included into
//! the server crate by a hook in logs/mod.rs). The real file is a background tokio task fed through
//! a flume channel (`select!`, timers); it only runs under `Confirmation::NoWait`, which is a
//! concurrency mode outside every claim (DESIGN §4). Reaching it in a harness is reported.
use super::super::super::batching::message_batch::RetainedMessageBatch;
use iggy::utils::duration::IggyDuration;
use std::sync::{atomic::AtomicU64, Arc};

#[derive(Debug)]
pub struct PersisterTask;

impl PersisterTask {
    pub fn new<F>(
        _file: F,
        _file_path: String,
        _fsync: bool,
        _log_file_size: Arc<AtomicU64>,
        _max_retries: u32,
        _retry_delay: IggyDuration,
    ) -> Self {
        panic!("model: Confirmation::NoWait (background persister task) is outside the verified configuration");
    }
    pub fn persist(&self, _batch: RetainedMessageBatch) -> core::future::Ready<()> {
        panic!("model: background persister task is outside the verified configuration");
    }
    pub fn shutdown(self) -> core::future::Ready<()> {
        core::future::ready(())
    }
}
