//! Single-task stand-ins for `tokio::sync::{RwLock, Mutex}`. Kani executes one task; every
//! acquire is immediately ready. A reader/writer count is kept so that a self-deadlock (acquiring
//! a write lock while the same task still holds a guard) is reported as an assertion failure
//! instead of silently succeeding. Other schedules are outside the claim (DESIGN §4, C12).
use core::cell::{Cell, UnsafeCell};
use core::ops::{Deref, DerefMut};

pub struct RwLock<T: ?Sized> {
    state: Cell<isize>, // >0 readers, -1 writer
    data: UnsafeCell<T>,
}
unsafe impl<T: ?Sized + Send> Send for RwLock<T> {}
unsafe impl<T: ?Sized + Send + Sync> Sync for RwLock<T> {}

pub struct RwLockReadGuard<'a, T: ?Sized> {
    l: &'a RwLock<T>,
}
pub struct RwLockWriteGuard<'a, T: ?Sized> {
    l: &'a RwLock<T>,
}
unsafe impl<T: ?Sized + Sync> Send for RwLockReadGuard<'_, T> {}
unsafe impl<T: ?Sized + Send + Sync> Send for RwLockWriteGuard<'_, T> {}
unsafe impl<T: ?Sized + Sync> Sync for RwLockReadGuard<'_, T> {}
unsafe impl<T: ?Sized + Send + Sync> Sync for RwLockWriteGuard<'_, T> {}

impl<T> RwLock<T> {
    pub fn new(t: T) -> Self {
        RwLock { state: Cell::new(0), data: UnsafeCell::new(t) }
    }
    pub fn into_inner(self) -> T {
        self.data.into_inner()
    }
}
impl<T: ?Sized> RwLock<T> {
    pub async fn read(&self) -> RwLockReadGuard<'_, T> {
        assert!(self.state.get() >= 0, "model RwLock: read while write-locked by the same task (deadlock)");
        self.state.set(self.state.get() + 1);
        RwLockReadGuard { l: self }
    }
    pub async fn write(&self) -> RwLockWriteGuard<'_, T> {
        assert!(self.state.get() == 0, "model RwLock: write while locked by the same task (deadlock)");
        self.state.set(-1);
        RwLockWriteGuard { l: self }
    }
    pub fn try_read(&self) -> Result<RwLockReadGuard<'_, T>, ()> {
        if self.state.get() < 0 {
            return Err(());
        }
        self.state.set(self.state.get() + 1);
        Ok(RwLockReadGuard { l: self })
    }
    pub fn try_write(&self) -> Result<RwLockWriteGuard<'_, T>, ()> {
        if self.state.get() != 0 {
            return Err(());
        }
        self.state.set(-1);
        Ok(RwLockWriteGuard { l: self })
    }
    pub fn get_mut(&mut self) -> &mut T {
        self.data.get_mut()
    }
    pub fn blocking_read(&self) -> RwLockReadGuard<'_, T> {
        self.try_read().unwrap()
    }
    pub fn blocking_write(&self) -> RwLockWriteGuard<'_, T> {
        self.try_write().unwrap()
    }
}
impl<'a, T: ?Sized> RwLockWriteGuard<'a, T> {
    pub fn downgrade(self) -> RwLockReadGuard<'a, T> {
        let l = self.l;
        core::mem::forget(self);
        l.state.set(1);
        RwLockReadGuard { l }
    }
}
impl<T: ?Sized> Deref for RwLockReadGuard<'_, T> {
    type Target = T;
    fn deref(&self) -> &T {
        unsafe { &*self.l.data.get() }
    }
}
impl<T: ?Sized> Deref for RwLockWriteGuard<'_, T> {
    type Target = T;
    fn deref(&self) -> &T {
        unsafe { &*self.l.data.get() }
    }
}
impl<T: ?Sized> DerefMut for RwLockWriteGuard<'_, T> {
    fn deref_mut(&mut self) -> &mut T {
        unsafe { &mut *self.l.data.get() }
    }
}
impl<T: ?Sized> Drop for RwLockReadGuard<'_, T> {
    fn drop(&mut self) {
        self.l.state.set(self.l.state.get() - 1);
    }
}
impl<T: ?Sized> Drop for RwLockWriteGuard<'_, T> {
    fn drop(&mut self) {
        self.l.state.set(0);
    }
}
impl<T: ?Sized> core::fmt::Debug for RwLock<T> {
    fn fmt(&self, _f: &mut core::fmt::Formatter<'_>) -> core::fmt::Result {
        Ok(())
    }
}
impl<T: Default> Default for RwLock<T> {
    fn default() -> Self {
        Self::new(T::default())
    }
}

pub struct Mutex<T: ?Sized> {
    inner: RwLock<T>,
}
pub type MutexGuard<'a, T> = RwLockWriteGuard<'a, T>;
impl<T> Mutex<T> {
    pub fn new(t: T) -> Self {
        Mutex { inner: RwLock::new(t) }
    }
    pub fn into_inner(self) -> T {
        self.inner.into_inner()
    }
}
impl<T: ?Sized> Mutex<T> {
    pub async fn lock(&self) -> MutexGuard<'_, T> {
        self.inner.write().await
    }
}
impl<T: ?Sized> core::fmt::Debug for Mutex<T> {
    fn fmt(&self, _f: &mut core::fmt::Formatter<'_>) -> core::fmt::Result {
        Ok(())
    }
}
