//! `tokio`-shaped namespace over the models, for files that name tokio items by full path
//! (`tokio::spawn(..)`, `tokio::fs::try_exists(..)`): those files get
//! `#[cfg(kani)] use iggy::verif_model::shim as tokio;`.
pub mod fs {
    pub use crate::verif_model::fs::{
        create_dir, create_dir_all, metadata, read_dir, remove_dir_all, remove_file, rename, try_exists, DirEntry, File,
        Metadata, OpenOptions, ReadDir,
    };
}
pub mod io {
    pub use crate::verif_model::fs::io_model::*;
}
pub mod task {
    pub use crate::verif_model::fs::task::*;
}
pub mod sync {
    pub use crate::verif_model::lock::*;
}
pub mod time {
    /// Elapsed wall time is only ever logged.
    #[derive(Clone, Copy, Debug)]
    pub struct Instant;
    impl Instant {
        pub fn now() -> Self {
            Instant
        }
        pub fn elapsed(&self) -> core::time::Duration {
            core::time::Duration::new(0, 0)
        }
    }
    pub async fn sleep(_d: core::time::Duration) {}
}
pub use crate::verif_model::fs::task::spawn;
