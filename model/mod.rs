//! Environment and container models compiled into the `iggy` (sdk) crate under `cfg(kani)` only
//! and re-used by `server` as `iggy::verif_model::*` (DESIGN.md §2, C2). Each model is a
//! fixed-capacity, loop-bounded stand-in for a std / third-party type, with the API subset the
//! repository uses. They are part of the trusted base; `./check setup` runs their native
//! differential tests against the real types.
#![allow(dead_code, clippy::all)]

pub mod clock;
pub mod dashmap;
pub mod lock;
pub mod map;
pub mod fs;
pub mod paths;
pub mod cache;
pub mod shim;
