//! Fixed-capacity, loop-bounded stand-ins for `ahash::AHashMap` / `ahash::AHashSet`
//! (API subset used by the repository). Semantics: a finite partial map; iteration order is slot
//! order (insertion into the first free slot), which is one legal order of a hash map.
//! Exceeding the capacity is outside the bound: `kani::assume(false)` (the path is dropped and the
//! capacity is recorded as a bound in evidence).
use core::borrow::Borrow;

pub const CAP: usize = 4;

#[derive(Clone)]
pub struct AHashMap<K, V> {
    slots: [Option<(K, V)>; CAP],
    /// test knob: when set, `len()` reports this value (used to make a partition count symbolic
    /// in harnesses that only ask the map for its length).
    len_override: Option<usize>,
}

pub type HashMap<K, V> = AHashMap<K, V>;

impl<K, V> AHashMap<K, V> {
    pub fn new() -> Self {
        AHashMap { slots: [None, None, None, None], len_override: None }
    }
    pub fn with_capacity(_n: usize) -> Self {
        Self::new()
    }
    pub fn verif_set_len_override(&mut self, n: Option<usize>) {
        self.len_override = n;
    }
    pub fn len(&self) -> usize {
        if let Some(n) = self.len_override {
            return n;
        }
        // unrolled over the 4 slots (no loop: harness unwind bounds are set by the repository's loops)
        (self.slots[0].is_some() as usize) + (self.slots[1].is_some() as usize)
            + (self.slots[2].is_some() as usize) + (self.slots[3].is_some() as usize)
    }
    pub fn is_empty(&self) -> bool {
        self.len() == 0
    }
    pub fn clear(&mut self) {
        let mut i = 0;
        while i < CAP {
            self.slots[i] = None;
            i += 1;
        }
    }
    pub fn iter(&self) -> Iter<'_, K, V> {
        Iter { m: self, i: 0 }
    }
    pub fn iter_mut(&mut self) -> IterMut<'_, K, V> {
        IterMut { it: self.slots.iter_mut() }
    }
    pub fn values(&self) -> Values<'_, K, V> {
        Values { m: self, i: 0 }
    }
    pub fn values_mut(&mut self) -> ValuesMut<'_, K, V> {
        ValuesMut { it: self.slots.iter_mut() }
    }
    pub fn keys(&self) -> Keys<'_, K, V> {
        Keys { m: self, i: 0 }
    }
    pub fn into_values(self) -> IntoValues<K, V> {
        IntoValues { it: self.slots.into_iter() }
    }
    pub fn into_keys(self) -> IntoKeys<K, V> {
        IntoKeys { it: self.slots.into_iter() }
    }
    pub fn drain(&mut self) -> IntoIter<K, V> {
        let old = core::mem::replace(&mut self.slots, [None, None, None, None]);
        IntoIter { it: old.into_iter() }
    }
}

impl<K: Eq, V> AHashMap<K, V> {
    fn find<Q: ?Sized + Eq>(&self, k: &Q) -> Option<usize>
    where
        K: Borrow<Q>,
    {
        if self.slot_is(0, k) { return Some(0); }
        if self.slot_is(1, k) { return Some(1); }
        if self.slot_is(2, k) { return Some(2); }
        if self.slot_is(3, k) { return Some(3); }
        None
    }
    fn slot_is<Q: ?Sized + Eq>(&self, i: usize, k: &Q) -> bool
    where
        K: Borrow<Q>,
    {
        match &self.slots[i] {
            Some((kk, _)) => kk.borrow() == k,
            None => false,
        }
    }
    pub fn get<Q: ?Sized + Eq>(&self, k: &Q) -> Option<&V>
    where
        K: Borrow<Q>,
    {
        match self.find(k) {
            Some(i) => self.slots[i].as_ref().map(|(_, v)| v),
            None => None,
        }
    }
    pub fn get_mut<Q: ?Sized + Eq>(&mut self, k: &Q) -> Option<&mut V>
    where
        K: Borrow<Q>,
    {
        match self.find(k) {
            Some(i) => self.slots[i].as_mut().map(|(_, v)| v),
            None => None,
        }
    }
    pub fn get_key_value<Q: ?Sized + Eq>(&self, k: &Q) -> Option<(&K, &V)>
    where
        K: Borrow<Q>,
    {
        match self.find(k) {
            Some(i) => self.slots[i].as_ref().map(|(k, v)| (k, v)),
            None => None,
        }
    }
    pub fn contains_key<Q: ?Sized + Eq>(&self, k: &Q) -> bool
    where
        K: Borrow<Q>,
    {
        self.find(k).is_some()
    }
    pub fn insert(&mut self, k: K, v: V) -> Option<V> {
        if let Some(i) = self.find(&k) {
            let old = self.slots[i].take();
            self.slots[i] = Some((k, v));
            return old.map(|(_, v)| v);
        }
        let i = if self.slots[0].is_none() { 0 } else if self.slots[1].is_none() { 1 } else if self.slots[2].is_none() { 2 }
            else if self.slots[3].is_none() { 3 } else {
                // capacity exceeded: outside the stated bound
                kani::assume(false);
                0
            };
        self.slots[i] = Some((k, v));
        None
    }
    pub fn remove<Q: ?Sized + Eq>(&mut self, k: &Q) -> Option<V>
    where
        K: Borrow<Q>,
    {
        match self.find(k) {
            Some(i) => self.slots[i].take().map(|(_, v)| v),
            None => None,
        }
    }
    pub fn remove_entry<Q: ?Sized + Eq>(&mut self, k: &Q) -> Option<(K, V)>
    where
        K: Borrow<Q>,
    {
        match self.find(k) {
            Some(i) => self.slots[i].take(),
            None => None,
        }
    }
    pub fn retain<F: FnMut(&K, &mut V) -> bool>(&mut self, mut f: F) {
        let mut i = 0;
        while i < CAP {
            let keep = match &mut self.slots[i] {
                Some((k, v)) => f(k, v),
                None => true,
            };
            if !keep {
                self.slots[i] = None;
            }
            i += 1;
        }
    }
    pub fn extend<I: IntoIterator<Item = (K, V)>>(&mut self, it: I) {
        for (k, v) in it {
            self.insert(k, v);
        }
    }
}

impl<K, V> Default for AHashMap<K, V> {
    fn default() -> Self {
        Self::new()
    }
}

impl<K, V> core::fmt::Debug for AHashMap<K, V> {
    fn fmt(&self, _f: &mut core::fmt::Formatter<'_>) -> core::fmt::Result {
        Ok(())
    }
}

impl<K: Eq, V: PartialEq> PartialEq for AHashMap<K, V> {
    fn eq(&self, other: &Self) -> bool {
        if self.len() != other.len() {
            return false;
        }
        let mut i = 0;
        while i < CAP {
            if let Some((k, v)) = &self.slots[i] {
                match other.get(k) {
                    Some(ov) => {
                        if ov != v {
                            return false;
                        }
                    }
                    None => return false,
                }
            }
            i += 1;
        }
        true
    }
}
impl<K: Eq, V: Eq> Eq for AHashMap<K, V> {}

impl<K: Eq, V, const N: usize> From<[(K, V); N]> for AHashMap<K, V> {
    fn from(arr: [(K, V); N]) -> Self {
        let mut m = Self::new();
        for (k, v) in arr {
            m.insert(k, v);
        }
        m
    }
}

impl<K: Eq, V> FromIterator<(K, V)> for AHashMap<K, V> {
    fn from_iter<I: IntoIterator<Item = (K, V)>>(it: I) -> Self {
        let mut m = Self::new();
        for (k, v) in it {
            m.insert(k, v);
        }
        m
    }
}

pub struct Iter<'a, K, V> {
    m: &'a AHashMap<K, V>,
    i: usize,
}
impl<'a, K, V> Iterator for Iter<'a, K, V> {
    type Item = (&'a K, &'a V);
    fn next(&mut self) -> Option<Self::Item> {
        while self.i < CAP {
            let i = self.i;
            self.i += 1;
            if let Some((k, v)) = &self.m.slots[i] {
                return Some((k, v));
            }
        }
        None
    }
}
pub struct Values<'a, K, V> {
    m: &'a AHashMap<K, V>,
    i: usize,
}
impl<'a, K, V> Iterator for Values<'a, K, V> {
    type Item = &'a V;
    fn next(&mut self) -> Option<Self::Item> {
        while self.i < CAP {
            let i = self.i;
            self.i += 1;
            if let Some((_, v)) = &self.m.slots[i] {
                return Some(v);
            }
        }
        None
    }
}
pub struct Keys<'a, K, V> {
    m: &'a AHashMap<K, V>,
    i: usize,
}
impl<'a, K, V> Iterator for Keys<'a, K, V> {
    type Item = &'a K;
    fn next(&mut self) -> Option<Self::Item> {
        while self.i < CAP {
            let i = self.i;
            self.i += 1;
            if let Some((k, _)) = &self.m.slots[i] {
                return Some(k);
            }
        }
        None
    }
}
pub struct IterMut<'a, K, V> {
    it: core::slice::IterMut<'a, Option<(K, V)>>,
}
impl<'a, K, V> Iterator for IterMut<'a, K, V> {
    type Item = (&'a K, &'a mut V);
    fn next(&mut self) -> Option<Self::Item> {
        loop {
            match self.it.next() {
                None => return None,
                Some(Some((k, v))) => return Some((&*k, v)),
                Some(None) => {}
            }
        }
    }
}
pub struct ValuesMut<'a, K, V> {
    it: core::slice::IterMut<'a, Option<(K, V)>>,
}
impl<'a, K, V> Iterator for ValuesMut<'a, K, V> {
    type Item = &'a mut V;
    fn next(&mut self) -> Option<Self::Item> {
        loop {
            match self.it.next() {
                None => return None,
                Some(Some((_, v))) => return Some(v),
                Some(None) => {}
            }
        }
    }
}
pub struct IntoIter<K, V> {
    it: core::array::IntoIter<Option<(K, V)>, CAP>,
}
impl<K, V> Iterator for IntoIter<K, V> {
    type Item = (K, V);
    fn next(&mut self) -> Option<Self::Item> {
        loop {
            match self.it.next() {
                None => return None,
                Some(Some(kv)) => return Some(kv),
                Some(None) => {}
            }
        }
    }
}
pub struct IntoValues<K, V> {
    it: core::array::IntoIter<Option<(K, V)>, CAP>,
}
impl<K, V> Iterator for IntoValues<K, V> {
    type Item = V;
    fn next(&mut self) -> Option<Self::Item> {
        loop {
            match self.it.next() {
                None => return None,
                Some(Some((_, v))) => return Some(v),
                Some(None) => {}
            }
        }
    }
}
pub struct IntoKeys<K, V> {
    it: core::array::IntoIter<Option<(K, V)>, CAP>,
}
impl<K, V> Iterator for IntoKeys<K, V> {
    type Item = K;
    fn next(&mut self) -> Option<Self::Item> {
        loop {
            match self.it.next() {
                None => return None,
                Some(Some((k, _))) => return Some(k),
                Some(None) => {}
            }
        }
    }
}
impl<K, V> IntoIterator for AHashMap<K, V> {
    type Item = (K, V);
    type IntoIter = IntoIter<K, V>;
    fn into_iter(self) -> IntoIter<K, V> {
        IntoIter { it: self.slots.into_iter() }
    }
}
impl<'a, K, V> IntoIterator for &'a AHashMap<K, V> {
    type Item = (&'a K, &'a V);
    type IntoIter = Iter<'a, K, V>;
    fn into_iter(self) -> Iter<'a, K, V> {
        self.iter()
    }
}
impl<'a, K, V> IntoIterator for &'a mut AHashMap<K, V> {
    type Item = (&'a K, &'a mut V);
    type IntoIter = IterMut<'a, K, V>;
    fn into_iter(self) -> IterMut<'a, K, V> {
        self.iter_mut()
    }
}

// serde: the permission records derive Serialize/Deserialize; no harness serialises them through
// serde, so the impls only have to exist.
impl<K, V> serde::Serialize for AHashMap<K, V> {
    fn serialize<S: serde::Serializer>(&self, s: S) -> Result<S::Ok, S::Error> {
        s.serialize_unit()
    }
}
impl<'de, K, V> serde::Deserialize<'de> for AHashMap<K, V> {
    fn deserialize<D: serde::Deserializer<'de>>(_d: D) -> Result<Self, D::Error> {
        Ok(Self::new())
    }
}

// ------------------------------------------------------------------------------------------------

#[derive(Clone)]
pub struct AHashSet<T> {
    m: AHashMap<T, ()>,
}
pub type HashSet<T> = AHashSet<T>;

impl<T> AHashSet<T> {
    pub fn new() -> Self {
        AHashSet { m: AHashMap::new() }
    }
    pub fn len(&self) -> usize {
        self.m.len()
    }
    pub fn is_empty(&self) -> bool {
        self.m.is_empty()
    }
    pub fn clear(&mut self) {
        self.m.clear()
    }
    pub fn iter(&self) -> Keys<'_, T, ()> {
        self.m.keys()
    }
}
impl<T: Eq> AHashSet<T> {
    pub fn insert(&mut self, t: T) -> bool {
        if self.m.contains_key(&t) {
            return false;
        }
        self.m.insert(t, ());
        true
    }
    pub fn contains<Q: ?Sized + Eq>(&self, t: &Q) -> bool
    where
        T: Borrow<Q>,
    {
        self.m.contains_key(t)
    }
    pub fn remove<Q: ?Sized + Eq>(&mut self, t: &Q) -> bool
    where
        T: Borrow<Q>,
    {
        self.m.remove(t).is_some()
    }
    pub fn retain<F: FnMut(&T) -> bool>(&mut self, mut f: F) {
        self.m.retain(|k, _| f(k))
    }
    pub fn difference<'a>(&'a self, other: &'a AHashSet<T>) -> impl Iterator<Item = &'a T> + 'a {
        self.m.keys().filter(move |k| !other.contains(*k))
    }
}
impl<T> Default for AHashSet<T> {
    fn default() -> Self {
        Self::new()
    }
}
impl<T> core::fmt::Debug for AHashSet<T> {
    fn fmt(&self, _f: &mut core::fmt::Formatter<'_>) -> core::fmt::Result {
        Ok(())
    }
}
impl<T: Eq> FromIterator<T> for AHashSet<T> {
    fn from_iter<I: IntoIterator<Item = T>>(it: I) -> Self {
        let mut s = Self::new();
        for t in it {
            s.insert(t);
        }
        s
    }
}
impl<'a, T> IntoIterator for &'a AHashSet<T> {
    type Item = &'a T;
    type IntoIter = Keys<'a, T, ()>;
    fn into_iter(self) -> Keys<'a, T, ()> {
        self.m.keys()
    }
}
impl<T> IntoIterator for AHashSet<T> {
    type Item = T;
    type IntoIter = IntoKeys<T, ()>;
    fn into_iter(self) -> IntoKeys<T, ()> {
        self.m.into_keys()
    }
}
