//! Stand-in for `bytes::BytesMut` in the server's storage core (API subset used there): a fixed
//! capacity inline buffer. The real type keeps a tagged pointer (vec / shared representation) and
//! grows through `reserve_inner`; neither is tractable for CBMC (every `put_*` explores both
//! representations and the growth path). Exceeding the capacity is outside the bound and reported.
use bytes::Bytes;
use core::ops::{Deref, DerefMut};

pub const CAP: usize = 256;

/// `bytes::BufMut` stands in as an empty trait: the model has the methods inherently.
pub trait BufMut {}

#[derive(Clone)]
pub struct BytesMut {
    buf: [u8; CAP],
    len: usize,
}

impl BytesMut {
    pub fn new() -> Self {
        BytesMut { buf: [0u8; CAP], len: 0 }
    }
    pub fn with_capacity(_n: usize) -> Self {
        Self::new()
    }
    pub fn len(&self) -> usize {
        self.len
    }
    pub fn is_empty(&self) -> bool {
        self.len == 0
    }
    pub fn capacity(&self) -> usize {
        CAP
    }
    pub fn clear(&mut self) {
        self.len = 0;
    }
    pub fn reserve(&mut self, _n: usize) {}
    fn room(&self, n: usize) {
        assert!(self.len + n <= CAP, "model BytesMut: more than 256 bytes (harness bound)");
    }
    pub fn put_slice(&mut self, s: &[u8]) {
        let n = s.len();
        self.room(n);
        super::unrolled::copy_unrolled(&mut self.buf, self.len, s, 0, n);
        self.len += n;
    }
    pub fn extend_from_slice(&mut self, s: &[u8]) {
        self.put_slice(s)
    }
    pub fn put_bytes(&mut self, val: u8, cnt: usize) {
        self.room(cnt);
        super::unrolled::fill_unrolled(&mut self.buf, self.len, val, cnt);
        self.len += cnt;
    }
    pub fn put_u8(&mut self, v: u8) {
        self.put_slice(&[v])
    }
    pub fn put_u16_le(&mut self, v: u16) {
        self.put_slice(&v.to_le_bytes())
    }
    pub fn put_u32_le(&mut self, v: u32) {
        self.put_slice(&v.to_le_bytes())
    }
    pub fn put_u64_le(&mut self, v: u64) {
        self.put_slice(&v.to_le_bytes())
    }
    pub fn put_u128_le(&mut self, v: u128) {
        self.put_slice(&v.to_le_bytes())
    }
    pub fn put<T: AsRef<[u8]>>(&mut self, t: T) {
        self.put_slice(t.as_ref())
    }
    /// `Extend<u8>` / `Extend<&u8>` as used in the repository: always called with a byte container
    pub fn extend<T: AsRef<[u8]>>(&mut self, t: T) {
        self.put_slice(t.as_ref())
    }
    pub fn freeze(self) -> Bytes {
        let mut v: Vec<u8> = vec![0u8; self.len];
        super::unrolled::copy_unrolled(&mut v, 0, &self.buf, 0, self.len);
        Bytes::from_static(Box::leak(v.into_boxed_slice()))
    }
}

impl Default for BytesMut {
    fn default() -> Self {
        Self::new()
    }
}
impl From<&[u8]> for BytesMut {
    fn from(s: &[u8]) -> Self {
        let mut b = BytesMut::new();
        b.put_slice(s);
        b
    }
}
impl Deref for BytesMut {
    type Target = [u8];
    fn deref(&self) -> &[u8] {
        &self.buf[..self.len]
    }
}
impl DerefMut for BytesMut {
    fn deref_mut(&mut self) -> &mut [u8] {
        &mut self.buf[..self.len]
    }
}
impl AsRef<[u8]> for BytesMut {
    fn as_ref(&self) -> &[u8] {
        &self.buf[..self.len]
    }
}
impl core::fmt::Debug for BytesMut {
    fn fmt(&self, _f: &mut core::fmt::Formatter<'_>) -> core::fmt::Result {
        Ok(())
    }
}
