//! Stand-in for `moka::future::Cache<K, bool>` as used by `MessageDeduplicator`: a fixed-capacity
//! set WITHOUT eviction — exactly the regime C18 speaks about ("within the configured id capacity
//! and time-to-live"). Capacity/TTL eviction is moka's behaviour and outside the claim.
use super::map::AHashMap;
use core::cell::UnsafeCell;

pub struct Cache<K, V> {
    m: UnsafeCell<AHashMap<K, V>>,
}
unsafe impl<K: Send, V: Send> Send for Cache<K, V> {}
unsafe impl<K: Send + Sync, V: Send + Sync> Sync for Cache<K, V> {}

pub struct CacheBuilder<K, V> {
    _p: core::marker::PhantomData<(K, V)>,
}
impl<K: Eq, V> CacheBuilder<K, V> {
    pub fn max_capacity(self, _n: u64) -> Self {
        self
    }
    pub fn time_to_live(self, _d: core::time::Duration) -> Self {
        self
    }
    pub fn build(self) -> Cache<K, V> {
        Cache { m: UnsafeCell::new(AHashMap::new()) }
    }
}
impl<K: Eq, V> Cache<K, V> {
    pub fn builder() -> CacheBuilder<K, V> {
        CacheBuilder { _p: core::marker::PhantomData }
    }
    pub fn contains_key(&self, k: &K) -> bool {
        unsafe { &*self.m.get() }.contains_key(k)
    }
    pub async fn insert(&self, k: K, v: V) {
        unsafe { &mut *self.m.get() }.insert(k, v);
    }
    pub fn entry_count(&self) -> u64 {
        unsafe { &*self.m.get() }.len() as u64
    }
}
impl<K, V> core::fmt::Debug for Cache<K, V> {
    fn fmt(&self, _f: &mut core::fmt::Formatter<'_>) -> core::fmt::Result {
        Ok(())
    }
}
