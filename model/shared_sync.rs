//! Sync counterpart of `iggy::locking::{IggySharedMut, IggySharedMutFn}` (sdk/src/locking) for the
//! de-asynced twin tree: same shape (Arc around the single-task RwLock model), `read`/`write`
//! return the guard directly.
use super::lock_sync::{RwLock, RwLockReadGuard, RwLockWriteGuard};
use std::sync::Arc;

pub trait IggySharedMutFn<T> {
    fn new(data: T) -> Self
    where
        Self: Sized;
    fn read(&self) -> RwLockReadGuard<'_, T>;
    fn write(&self) -> RwLockWriteGuard<'_, T>;
}

#[derive(Debug)]
pub struct IggySharedMut<T>(Arc<RwLock<T>>);

impl<T> IggySharedMutFn<T> for IggySharedMut<T> {
    fn new(data: T) -> Self {
        IggySharedMut(Arc::new(RwLock::new(data)))
    }
    fn read(&self) -> RwLockReadGuard<'_, T> {
        self.0.read()
    }
    fn write(&self) -> RwLockWriteGuard<'_, T> {
        self.0.write()
    }
}
impl<T> Clone for IggySharedMut<T> {
    fn clone(&self) -> Self {
        Self(Arc::clone(&self.0))
    }
}
