//! The model file system (DESIGN.md §2.4): a table of at most `MAX_FILES` files of at most
//! `FILE_CAP` bytes each plus a list of directories, with the API subset of `tokio::fs`,
//! `tokio::io`, `std::fs` and `tokio::task` that the storage code of the repository uses. Files are
//! keyed by path string. A *fault plan* lets a harness make the k-th mutating operation fail, or
//! tear (only a prefix of the bytes reaches the file, the call fails, and every later operation
//! fails too: the process has "crashed").
//!
//! Assumptions that this model bakes in (they are part of every claim that uses it):
//!  * a completed write is durable and is seen by every later read (no page-cache loss, no
//!    reordering of completed writes by the OS);
//!  * `write_all` / `write_vectored` on a regular file write everything or fail (no short write
//!    that returns `Ok`);
//!  * all futures are immediately ready; `spawn`/`spawn_blocking` run the task inline.
#![allow(static_mut_refs)]

use std::io;
use std::path::{Path, PathBuf};

pub const MAX_FILES: usize = 6;
pub const MAX_DIRS: usize = 6;
pub const FILE_CAP: usize = 384;

/// A path as six little-endian words (48 bytes, zero padded) plus its length: comparing two keys is
/// six word comparisons, no loop (std's `str ==` is a memcmp loop whose trip count CBMC must unwind,
/// and `Path::to_str` adds a UTF-8 validation loop per call).
#[derive(Clone, Copy, PartialEq, Eq)]
pub struct Key {
    pub w: [u64; 6],
    pub len: usize,
}

pub const KEY_BYTES: usize = 48;

#[inline(always)]
fn byte_at(p: &[u8], i: usize) -> u64 {
    if i < p.len() { p[i] as u64 } else { 0 }
}

macro_rules! word {
    ($p:expr, $b:expr) => {
        byte_at($p, $b) | (byte_at($p, $b + 1) << 8) | (byte_at($p, $b + 2) << 16) | (byte_at($p, $b + 3) << 24)
            | (byte_at($p, $b + 4) << 32) | (byte_at($p, $b + 5) << 40) | (byte_at($p, $b + 6) << 48) | (byte_at($p, $b + 7) << 56)
    };
}

impl Key {
    pub const fn empty() -> Key {
        Key { w: [0; 6], len: 0 }
    }
    pub fn of(path: &str) -> Key {
        let p = path.as_bytes();
        assert!(!p.is_empty(), "model fs: empty path (a path producer is not stubbed)");
        assert!(p.len() <= KEY_BYTES, "model fs: path longer than 48 bytes");
        Key { w: [word!(p, 0), word!(p, 8), word!(p, 16), word!(p, 24), word!(p, 32), word!(p, 40)], len: p.len() }
    }
    pub fn same(&self, o: &Key) -> bool {
        self.len == o.len
            && self.w[0] == o.w[0] && self.w[1] == o.w[1] && self.w[2] == o.w[2]
            && self.w[3] == o.w[3] && self.w[4] == o.w[4] && self.w[5] == o.w[5]
    }
    fn byte(&self, i: usize) -> u8 {
        ((self.w[i / 8] >> (8 * (i % 8))) & 0xFF) as u8
    }
    /// self == dir + "/" + rest (rest non-empty)
    pub fn is_under(&self, dir: &Key) -> bool {
        if self.len <= dir.len + 1 {
            return false;
        }
        // compare the first dir.len bytes word-wise with a mask, then the separator
        let mut k = 0;
        while k < 6 {
            let lo = 8 * k;
            let mask: u64 = if dir.len >= lo + 8 {
                u64::MAX
            } else if dir.len <= lo {
                0
            } else {
                (1u64 << (8 * (dir.len - lo))) - 1
            };
            if (self.w[k] & mask) != (dir.w[k] & mask) {
                return false;
            }
            k += 1;
        }
        self.byte(dir.len) == b'/'
    }
    /// number of '/' bytes at positions > from (loop over 6 words x 8 bytes, constant bounds)
    pub fn has_slash_after(&self, from: usize) -> bool {
        let mut k = 0;
        while k < 6 {
            let mut j = 0;
            while j < 8 {
                let i = 8 * k + j;
                if i > from && i < self.len && self.byte(i) == b'/' {
                    return true;
                }
                j += 1;
            }
            k += 1;
        }
        false
    }
    pub fn is_child_of(&self, dir: &Key) -> bool {
        self.is_under(dir) && !self.has_slash_after(dir.len)
    }
}

pub struct FileSlot {
    pub used: bool,
    pub key: Key,
    pub path: String,
    pub len: usize,
    pub data: [u8; FILE_CAP],
}

impl FileSlot {
    const fn empty() -> Self {
        FileSlot { used: false, key: Key::empty(), path: String::new(), len: 0, data: [0u8; FILE_CAP] }
    }
}

pub struct Fs {
    pub files: [FileSlot; MAX_FILES],
    pub dirs: [Option<(Key, String)>; MAX_DIRS],
    /// number of mutating operations performed so far (create, write, remove)
    pub ops: usize,
    /// the op with this index fails with `Err` and changes nothing
    pub fail_at: Option<usize>,
    /// the write op with this index writes only the first `n` bytes, fails, and crashes the process
    pub tear_at: Option<(usize, usize)>,
    pub crashed: bool,
    /// when set, any file-system access is reported as a failure (harnesses whose scenario must
    /// not touch the disk use it to cut the exploration of I/O code behind unfoldable branches)
    pub forbidden: bool,
    /// strict mode: a condition that would make the model return an I/O error that the harness did
    /// NOT inject (file not found, read past the end, crashed process) is reported as a failure
    /// instead. In harnesses without such errors this removes every `io::Error` value from the
    /// explored program: their drop glue (tagged-pointer repr, `Box<dyn Error>`) is what makes error
    /// propagation paths explode under CBMC.
    pub strict: bool,
}

pub static mut FS: Fs = Fs {
    files: [
        FileSlot::empty(), FileSlot::empty(), FileSlot::empty(), FileSlot::empty(),
        FileSlot::empty(), FileSlot::empty(),
    ],
    dirs: [None, None, None, None, None, None],
    ops: 0,
    fail_at: None,
    tear_at: None,
    crashed: false,
    forbidden: false,
    strict: false,
};

pub fn fs() -> &'static mut Fs {
    unsafe {
        if FS.forbidden {
            panic!("model fs: file-system access in a harness that forbids it");
        }
        &mut FS
    }
}

pub fn forbid(on: bool) {
    unsafe { FS.forbidden = on }
}

fn err(kind: io::ErrorKind) -> io::Error {
    unsafe {
        if FS.strict {
            panic!("model fs (strict mode): an I/O error that the harness did not inject");
        }
    }
    io::Error::from(kind)
}

/// the error returned for a fault that the harness injected through the fault plan
fn injected_err() -> io::Error {
    io::Error::from(io::ErrorKind::Other)
}

pub fn strict(on: bool) {
    unsafe { FS.strict = on }
}

fn pstr<P: AsRef<Path>>(p: &P) -> &str {
    // paths in harnesses are ASCII by construction; skip std's UTF-8 validation loop
    unsafe { core::str::from_utf8_unchecked(p.as_ref().as_os_str().as_encoded_bytes()) }
}

impl Fs {
    // Unrolled over the six slots on purpose: no loop, so harness unwind bounds are set by the
    // repository's loops only.
    pub fn find(&self, path: &str) -> Option<usize> {
        let k = Key::of(path);
        if self.files[0].used && self.files[0].key.same(&k) { return Some(0); }
        if self.files[1].used && self.files[1].key.same(&k) { return Some(1); }
        if self.files[2].used && self.files[2].key.same(&k) { return Some(2); }
        if self.files[3].used && self.files[3].key.same(&k) { return Some(3); }
        if self.files[4].used && self.files[4].key.same(&k) { return Some(4); }
        if self.files[5].used && self.files[5].key.same(&k) { return Some(5); }
        None
    }
    fn dir_is(&self, i: usize, k: &Key) -> bool {
        match &self.dirs[i] {
            Some((d, _)) => d.same(k),
            None => false,
        }
    }
    pub fn is_dir(&self, path: &str) -> bool {
        let k = Key::of(path);
        self.dir_is(0, &k) || self.dir_is(1, &k) || self.dir_is(2, &k) || self.dir_is(3, &k) || self.dir_is(4, &k) || self.dir_is(5, &k)
    }
    pub fn exists(&self, path: &str) -> bool {
        self.find(path).is_some() || self.is_dir(path)
    }
    pub fn add_dir(&mut self, path: &str) {
        if self.is_dir(path) {
            return;
        }
        let mut i = 0;
        while i < MAX_DIRS {
            if self.dirs[i].is_none() {
                self.dirs[i] = Some((Key::of(path), String::from(path)));
                return;
            }
            i += 1;
        }
        kani::assume(false);
    }
    /// Next mutating operation: returns Err when the fault plan says so.
    fn step(&mut self) -> io::Result<usize> {
        if self.crashed {
            return Err(err(io::ErrorKind::Other));
        }
        let k = self.ops;
        self.ops += 1;
        if self.fail_at == Some(k) {
            return Err(injected_err());
        }
        Ok(k)
    }
    pub fn create(&mut self, path: &str) -> io::Result<usize> {
        self.step()?;
        let i = if !self.files[0].used { 0 } else if !self.files[1].used { 1 } else if !self.files[2].used { 2 }
            else if !self.files[3].used { 3 } else if !self.files[4].used { 4 } else if !self.files[5].used { 5 }
            else { kani::assume(false); 0 };
        self.files[i].used = true;
        self.files[i].key = Key::of(path);
        self.files[i].path = String::from(path);
        self.files[i].len = 0;
        Ok(i)
    }
    pub fn remove(&mut self, path: &str) -> io::Result<()> {
        match self.find(path) {
            Some(i) => {
                self.step()?;
                self.files[i].used = false;
                self.files[i].len = 0;
                Ok(())
            }
            None => Err(err(io::ErrorKind::NotFound)),
        }
    }
    /// write `buf` at `pos`; returns Err on injected failure / tear
    pub fn write_at(&mut self, idx: usize, pos: usize, buf: &[u8]) -> io::Result<()> {
        let k = self.step()?;
        let mut n = buf.len();
        let mut torn = false;
        if let Some((tk, t)) = self.tear_at {
            if tk == k {
                if t < n {
                    n = t;
                }
                torn = true;
            }
        }
        if pos + n > FILE_CAP {
            // file capacity exceeded: outside the stated bound
            kani::assume(false);
        }
        let f = &mut self.files[idx];
        // bulk copy (memcpy), not a byte loop: the length of a buffer that went through the heap is
        // not a constant for CBMC's symbolic execution, and a byte loop would have to be unwound to
        // the harness bound on every write
        super::unrolled::copy_unrolled(&mut f.data, pos, buf, 0, n);
        if pos + n > f.len {
            f.len = pos + n;
        }
        if torn {
            self.crashed = true;
            return Err(injected_err());
        }
        Ok(())
    }
    pub fn read_at(&self, idx: usize, pos: usize, buf: &mut [u8]) -> io::Result<()> {
        let f = &self.files[idx];
        if pos + buf.len() > f.len {
            return Err(err(io::ErrorKind::UnexpectedEof));
        }
        let n = buf.len();
        super::unrolled::copy_unrolled(buf, 0, &f.data, pos, n);
        Ok(())
    }
    /// "Restart": the process state is gone, the files stay. Clears the crash flag and fault plan.
    pub fn restart(&mut self) {
        self.crashed = false;
        self.fail_at = None;
        self.tear_at = None;
    }
}

// ------------------------------------------------------------------------------------------------
// tokio::fs
// ------------------------------------------------------------------------------------------------
/// All fields are `usize` on purpose: a `bool` field would give rustc a niche to encode the
/// discriminant of `Result<File, io::Error>` inside the struct, and CBMC does not constant-fold values
/// extracted from niche-encoded enums (measured: every later file lookup became symbolic).
#[derive(Debug)]
pub struct File {
    idx: usize,
    pos: usize,
    append: usize,
}

#[derive(Clone, Debug)]
pub struct OpenOptions {
    read: bool,
    write: bool,
    append: bool,
    create: bool,
    truncate: bool,
}

pub struct Metadata {
    len: u64,
    dir: u64, // not bool: see `File`
}
impl Metadata {
    pub fn len(&self) -> u64 {
        self.len
    }
    pub fn is_dir(&self) -> bool {
        self.dir != 0
    }
    pub fn is_file(&self) -> bool {
        self.dir == 0
    }
}

impl OpenOptions {
    pub fn new() -> Self {
        OpenOptions { read: false, write: false, append: false, create: false, truncate: false }
    }
    pub fn read(&mut self, v: bool) -> &mut Self {
        self.read = v;
        self
    }
    pub fn write(&mut self, v: bool) -> &mut Self {
        self.write = v;
        self
    }
    pub fn append(&mut self, v: bool) -> &mut Self {
        self.append = v;
        self
    }
    pub fn create(&mut self, v: bool) -> &mut Self {
        self.create = v;
        self
    }
    pub fn truncate(&mut self, v: bool) -> &mut Self {
        self.truncate = v;
        self
    }
    pub fn open_sync<P: AsRef<Path>>(&self, path: P) -> io::Result<File> {
        let p = pstr(&path);
        let fs = fs();
        if fs.crashed {
            return Err(err(io::ErrorKind::Other));
        }
        let idx = match fs.find(p) {
            Some(i) => i,
            None => {
                if !self.create {
                    return Err(err(io::ErrorKind::NotFound));
                }
                fs.create(p)?
            }
        };
        if self.truncate {
            fs.files[idx].len = 0;
        }
        Ok(File { idx, pos: 0, append: self.append as usize })
    }
    pub async fn open<P: AsRef<Path>>(&self, path: P) -> io::Result<File> {
        self.open_sync(path)
    }
}

impl File {
    pub async fn open<P: AsRef<Path>>(path: P) -> io::Result<File> {
        OpenOptions::new().read(true).open_sync(path)
    }
    pub async fn create<P: AsRef<Path>>(path: P) -> io::Result<File> {
        OpenOptions::new().write(true).create(true).truncate(true).open_sync(path)
    }
    pub async fn sync_all(&self) -> io::Result<()> {
        if fs().crashed {
            return Err(err(io::ErrorKind::Other));
        }
        Ok(())
    }
    pub async fn sync_data(&self) -> io::Result<()> {
        self.sync_all().await
    }
    pub async fn flush(&mut self) -> io::Result<()> {
        Ok(())
    }
    pub fn metadata_sync(&self) -> io::Result<Metadata> {
        Ok(Metadata { len: fs().files[self.idx].len as u64, dir: 0 })
    }
    pub async fn metadata(&self) -> io::Result<Metadata> {
        self.metadata_sync()
    }
    pub fn write_all_sync(&mut self, buf: &[u8]) -> io::Result<()> {
        let fs = fs();
        let pos = if self.append != 0 { fs.files[self.idx].len } else { self.pos };
        fs.write_at(self.idx, pos, buf)?;
        self.pos = pos + buf.len();
        Ok(())
    }
    pub async fn write_all(&mut self, buf: &[u8]) -> io::Result<()> {
        self.write_all_sync(buf)
    }
    /// All slices are written by one operation (one crash point with a symbolic torn length).
    pub async fn write_vectored(&mut self, bufs: &[io::IoSlice<'_>]) -> io::Result<usize> {
        let mut all: Vec<u8> = Vec::new();
        let mut i = 0;
        while i < bufs.len() {
            all.extend_from_slice(&bufs[i]);
            i += 1;
        }
        self.write_all_sync(&all)?;
        Ok(all.len())
    }
    pub fn read_exact_sync(&mut self, buf: &mut [u8]) -> io::Result<usize> {
        fs().read_at(self.idx, self.pos, buf)?;
        self.pos += buf.len();
        Ok(buf.len())
    }
    pub async fn read_exact(&mut self, buf: &mut [u8]) -> io::Result<usize> {
        self.read_exact_sync(buf)
    }
    pub async fn read_u64_le(&mut self) -> io::Result<u64> {
        let mut b = [0u8; 8];
        self.read_exact_sync(&mut b)?;
        Ok(u64::from_le_bytes(b))
    }
    pub async fn read_u32_le(&mut self) -> io::Result<u32> {
        let mut b = [0u8; 4];
        self.read_exact_sync(&mut b)?;
        Ok(u32::from_le_bytes(b))
    }
    pub async fn read_u8(&mut self) -> io::Result<u8> {
        let mut b = [0u8; 1];
        self.read_exact_sync(&mut b)?;
        Ok(b[0])
    }
    pub async fn read_to_end(&mut self, out: &mut Vec<u8>) -> io::Result<usize> {
        let f = &fs().files[self.idx];
        let n = f.len - self.pos;
        out.extend_from_slice(&f.data[self.pos..f.len]);
        self.pos = f.len;
        Ok(n)
    }
    pub fn seek_sync(&mut self, to: io::SeekFrom) -> io::Result<u64> {
        let len = fs().files[self.idx].len;
        let np: i64 = match to {
            io::SeekFrom::Start(n) => n as i64,
            io::SeekFrom::Current(d) => self.pos as i64 + d,
            io::SeekFrom::End(d) => len as i64 + d,
        };
        if np < 0 {
            return Err(err(io::ErrorKind::InvalidInput));
        }
        self.pos = np as usize;
        Ok(np as u64)
    }
    /// std::os::unix::fs::FileExt::read_exact_at
    pub fn read_exact_at(&self, buf: &mut [u8], offset: u64) -> io::Result<()> {
        fs().read_at(self.idx, offset as usize, buf)
    }
    pub fn verif_len(&self) -> usize {
        fs().files[self.idx].len
    }
}

// Only so that code which streams a file into a third-party client type-checks (archiver);
// never executed in a harness.
impl tokio::io::AsyncRead for File {
    fn poll_read(
        self: core::pin::Pin<&mut Self>,
        _cx: &mut core::task::Context<'_>,
        _buf: &mut tokio::io::ReadBuf<'_>,
    ) -> core::task::Poll<io::Result<()>> {
        core::task::Poll::Ready(Ok(()))
    }
}

pub async fn remove_file<P: AsRef<Path>>(path: P) -> io::Result<()> {
    fs().remove(pstr(&path))
}

pub async fn try_exists<P: AsRef<Path>>(path: P) -> io::Result<bool> {
    Ok(fs().exists(pstr(&path)))
}

pub fn exists_sync(path: &Path) -> bool {
    // (no `to_str()`: std's UTF-8 validation is a loop over the path length)
    let s = unsafe { core::str::from_utf8_unchecked(path.as_os_str().as_encoded_bytes()) };
    fs().exists(s)
}

pub async fn create_dir_all<P: AsRef<Path>>(path: P) -> io::Result<()> {
    let fs = fs();
    if fs.crashed {
        return Err(err(io::ErrorKind::Other));
    }
    fs.add_dir(pstr(&path));
    Ok(())
}

pub async fn create_dir<P: AsRef<Path>>(path: P) -> io::Result<()> {
    create_dir_all(path).await
}

pub async fn remove_dir_all<P: AsRef<Path>>(path: P) -> io::Result<()> {
    let d = pstr(&path);
    let fs = fs();
    if !fs.is_dir(d) {
        return Err(err(io::ErrorKind::NotFound));
    }
    fs.step()?;
    let dk = Key::of(d);
    let mut i = 0;
    while i < MAX_FILES {
        if fs.files[i].used && fs.files[i].key.is_under(&dk) {
            fs.files[i].used = false;
            fs.files[i].len = 0;
        }
        i += 1;
    }
    let mut i = 0;
    while i < MAX_DIRS {
        let rm = match &fs.dirs[i] {
            Some((x, _)) => x.same(&dk) || x.is_under(&dk),
            None => false,
        };
        if rm {
            fs.dirs[i] = None;
        }
        i += 1;
    }
    Ok(())
}

pub async fn rename<P: AsRef<Path>, Q: AsRef<Path>>(from: P, to: Q) -> io::Result<()> {
    let fs = fs();
    match fs.find(pstr(&from)) {
        Some(i) => {
            fs.step()?;
            fs.files[i].key = Key::of(pstr(&to));
            fs.files[i].path = String::from(pstr(&to));
            Ok(())
        }
        None => Err(err(io::ErrorKind::NotFound)),
    }
}

pub async fn metadata<P: AsRef<Path>>(path: P) -> io::Result<Metadata> {
    let p = pstr(&path);
    let fs = fs();
    match fs.find(p) {
        Some(i) => Ok(Metadata { len: fs.files[i].len as u64, dir: 0 }),
        None => {
            if fs.is_dir(p) {
                Ok(Metadata { len: 0, dir: 1 })
            } else {
                Err(err(io::ErrorKind::NotFound))
            }
        }
    }
}

/// The name of a directory entry. Stands in for `OsString`/`String` in the two places where the
/// repository turns file names back into numbers (`<start offset>.log`, `<consumer id>`): std's
/// generic `str::replace` and `str::parse` do not terminate under CBMC within useful time, so the
/// name keeps its text and decodes the number with the inverse of the path encoding used by the
/// path-producer stubs (see `paths.rs`).
#[derive(Clone, Debug)]
pub struct Name {
    pub text: String,
}
impl Name {
    pub fn into_string(self) -> Result<Name, Name> {
        Ok(self)
    }
    /// `name.replace(".log", "")`: removes the extension. (`from` is produced by `format!`, which
    /// is stubbed to the empty string under Kani, so the model strips a trailing ".<ext>".)
    pub fn replace(&self, _from: &str, _to: &str) -> Name {
        let b = self.text.as_bytes();
        let mut cut = b.len();
        let mut i = 0;
        while i < b.len() {
            if b[i] == b'.' {
                cut = i;
            }
            i += 1;
        }
        Name { text: String::from(&self.text[..cut]) }
    }
    pub fn parse<T: super::paths::DecodeNum>(&self) -> Result<T, ()> {
        T::decode(self.text.as_str()).ok_or(())
    }
    pub fn as_str(&self) -> &str {
        self.text.as_str()
    }
}
impl core::fmt::Display for Name {
    fn fmt(&self, _f: &mut core::fmt::Formatter<'_>) -> core::fmt::Result {
        Ok(())
    }
}

pub struct DirEntry {
    path: String,
    dir: bool,
    len: u64,
}
impl DirEntry {
    pub fn path(&self) -> PathBuf {
        PathBuf::from(self.path.as_str())
    }
    pub fn file_name(&self) -> Name {
        let b = self.path.as_bytes();
        let mut start = 0;
        let mut i = 0;
        while i < b.len() {
            if b[i] == b'/' {
                start = i + 1;
            }
            i += 1;
        }
        Name { text: String::from(&self.path[start..]) }
    }
    pub async fn metadata(&self) -> io::Result<Metadata> {
        Ok(Metadata { len: self.len, dir: self.dir as u64 })
    }
}

pub struct ReadDir {
    dir: Key,
    fi: usize,
    di: usize,
}
impl ReadDir {
    pub async fn next_entry(&mut self) -> io::Result<Option<DirEntry>> {
        let fs = fs();
        while self.fi < MAX_FILES {
            let i = self.fi;
            self.fi += 1;
            if fs.files[i].used && fs.files[i].key.is_child_of(&self.dir) {
                return Ok(Some(DirEntry { path: fs.files[i].path.clone(), dir: false, len: fs.files[i].len as u64 }));
            }
        }
        while self.di < MAX_DIRS {
            let i = self.di;
            self.di += 1;
            if let Some((dk, d)) = &fs.dirs[i] {
                if dk.is_child_of(&self.dir) {
                    return Ok(Some(DirEntry { path: d.clone(), dir: true, len: 0 }));
                }
            }
        }
        Ok(None)
    }
}

pub async fn read_dir<P: AsRef<Path>>(path: P) -> io::Result<ReadDir> {
    let d = pstr(&path);
    if !fs().is_dir(d) {
        return Err(err(io::ErrorKind::NotFound));
    }
    Ok(ReadDir { dir: Key::of(d), fi: 0, di: 0 })
}

// ------------------------------------------------------------------------------------------------
// tokio::io
// ------------------------------------------------------------------------------------------------
pub mod io_model {
    use super::File;
    use std::io;
    /// The extension traits only have to exist: the model `File`/`BufReader` have inherent methods.
    pub trait AsyncReadExt {}
    pub trait AsyncWriteExt {}
    pub trait AsyncBufReadExt {}
    pub trait AsyncSeekExt {}

    pub struct BufReader<R> {
        inner: R,
    }
    impl BufReader<File> {
        pub fn new(inner: File) -> Self {
            BufReader { inner }
        }
        pub fn with_capacity(_cap: usize, inner: File) -> Self {
            BufReader { inner }
        }
        pub async fn read_u64_le(&mut self) -> io::Result<u64> {
            self.inner.read_u64_le().await
        }
        pub async fn read_u32_le(&mut self) -> io::Result<u32> {
            self.inner.read_u32_le().await
        }
        pub async fn read_u8(&mut self) -> io::Result<u8> {
            self.inner.read_u8().await
        }
        pub async fn read_exact(&mut self, buf: &mut [u8]) -> io::Result<usize> {
            self.inner.read_exact(buf).await
        }
        pub async fn read_to_end(&mut self, out: &mut Vec<u8>) -> io::Result<usize> {
            self.inner.read_to_end(out).await
        }
        pub fn get_ref(&self) -> &File {
            &self.inner
        }
        pub fn into_inner(self) -> File {
            self.inner
        }
        pub async fn seek(&mut self, to: io::SeekFrom) -> io::Result<u64> {
            self.inner.seek_sync(to)
        }
    }

    pub struct BufWriter<W> {
        inner: W,
    }
    impl BufWriter<File> {
        pub fn new(inner: File) -> Self {
            BufWriter { inner }
        }
        pub async fn write_u32_le(&mut self, v: u32) -> io::Result<()> {
            self.inner.write_all_sync(&v.to_le_bytes())
        }
        pub async fn write_u64_le(&mut self, v: u64) -> io::Result<()> {
            self.inner.write_all_sync(&v.to_le_bytes())
        }
        pub async fn write_all(&mut self, buf: &[u8]) -> io::Result<()> {
            self.inner.write_all_sync(buf)
        }
        pub async fn flush(&mut self) -> io::Result<()> {
            Ok(())
        }
    }
}

// ------------------------------------------------------------------------------------------------
// std::fs (synchronous handles used by the segment readers)
// ------------------------------------------------------------------------------------------------
pub mod stdfs {
    use std::io;
    use std::path::Path;

    #[derive(Debug)]
    pub struct File(super::File);
    #[derive(Clone, Debug)]
    pub struct OpenOptions(super::OpenOptions);

    /// stands in for `std::os::unix::fs::FileExt` (the model `File` has the method inherently)
    pub trait FileExt {}

    impl OpenOptions {
        pub fn new() -> Self {
            OpenOptions(super::OpenOptions::new())
        }
        pub fn read(&mut self, v: bool) -> &mut Self {
            self.0.read(v);
            self
        }
        pub fn write(&mut self, v: bool) -> &mut Self {
            self.0.write(v);
            self
        }
        pub fn append(&mut self, v: bool) -> &mut Self {
            self.0.append(v);
            self
        }
        pub fn create(&mut self, v: bool) -> &mut Self {
            self.0.create(v);
            self
        }
        pub fn truncate(&mut self, v: bool) -> &mut Self {
            self.0.truncate(v);
            self
        }
        pub fn open<P: AsRef<Path>>(&self, path: P) -> io::Result<File> {
            self.0.open_sync(path).map(File)
        }
    }
    impl File {
        pub fn metadata(&self) -> io::Result<super::Metadata> {
            self.0.metadata_sync()
        }
        pub fn read_exact_at(&self, buf: &mut [u8], offset: u64) -> io::Result<()> {
            self.0.read_exact_at(buf, offset)
        }
        pub fn sync_all(&self) -> io::Result<()> {
            Ok(())
        }
    }
}

/// Poll a future that must be immediately ready (all model primitives are). A `Pending` result is
/// reported as an assertion failure rather than silently dropped.
pub fn block_on<F: core::future::Future>(f: F) -> F::Output {
    let mut cx = core::task::Context::from_waker(core::task::Waker::noop());
    let mut f = core::pin::pin!(f);
    match f.as_mut().poll(&mut cx) {
        core::task::Poll::Ready(v) => v,
        core::task::Poll::Pending => {
            panic!("model executor: future returned Pending");
        }
    }
}

pub use super::task as task;
