//! Stand-in for `dashmap::DashMap` (API subset of partitions/{partition,consumer_offsets}.rs and
//! topics/consumer_groups.rs): the fixed-capacity map behind a single-task interior-mutability cell.
use super::map::AHashMap;
use core::cell::UnsafeCell;
use core::ops::{Deref, DerefMut};

pub struct DashMap<K, V> {
    m: UnsafeCell<AHashMap<K, V>>,
}
unsafe impl<K: Send, V: Send> Send for DashMap<K, V> {}
unsafe impl<K: Send + Sync, V: Send + Sync> Sync for DashMap<K, V> {}

pub struct Ref<'a, K, V> {
    k: &'a K,
    v: &'a V,
}
pub struct RefMut<'a, K, V> {
    k: &'a K,
    v: &'a mut V,
}
impl<K, V> Ref<'_, K, V> {
    pub fn key(&self) -> &K {
        self.k
    }
    pub fn value(&self) -> &V {
        self.v
    }
    pub fn pair(&self) -> (&K, &V) {
        (self.k, self.v)
    }
}
impl<K, V> Deref for Ref<'_, K, V> {
    type Target = V;
    fn deref(&self) -> &V {
        self.v
    }
}
impl<K, V> RefMut<'_, K, V> {
    pub fn key(&self) -> &K {
        self.k
    }
    pub fn value(&self) -> &V {
        self.v
    }
    pub fn value_mut(&mut self) -> &mut V {
        self.v
    }
}
impl<K, V> Deref for RefMut<'_, K, V> {
    type Target = V;
    fn deref(&self) -> &V {
        self.v
    }
}
impl<K, V> DerefMut for RefMut<'_, K, V> {
    fn deref_mut(&mut self) -> &mut V {
        self.v
    }
}

impl<K: Eq, V> DashMap<K, V> {
    pub fn new() -> Self {
        DashMap { m: UnsafeCell::new(AHashMap::new()) }
    }
    fn inner(&self) -> &mut AHashMap<K, V> {
        unsafe { &mut *self.m.get() }
    }
    pub fn get(&self, k: &K) -> Option<Ref<'_, K, V>> {
        self.inner().get_key_value(k).map(|(k, v)| Ref { k, v })
    }
    pub fn get_mut(&self, k: &K) -> Option<RefMut<'_, K, V>> {
        let m = self.inner();
        // two-step lookup keeps the borrow checker happy without unsafe aliasing of the key
        if !m.contains_key(k) {
            return None;
        }
        let (kk, _) = unsafe { &*self.m.get() }.get_key_value(k).unwrap();
        let v = m.get_mut(k).unwrap();
        Some(RefMut { k: kk, v })
    }
    pub fn insert(&self, k: K, v: V) -> Option<V> {
        self.inner().insert(k, v)
    }
    pub fn remove(&self, k: &K) -> Option<(K, V)> {
        self.inner().remove_entry(k)
    }
    pub fn contains_key(&self, k: &K) -> bool {
        self.inner().contains_key(k)
    }
    pub fn clear(&self) {
        self.inner().clear()
    }
    pub fn len(&self) -> usize {
        self.inner().len()
    }
    pub fn is_empty(&self) -> bool {
        self.inner().is_empty()
    }
    pub fn iter(&self) -> impl Iterator<Item = Ref<'_, K, V>> {
        self.inner().iter().map(|(k, v)| Ref { k, v })
    }
}
impl<K: Eq, V> Default for DashMap<K, V> {
    fn default() -> Self {
        Self::new()
    }
}
impl<K, V> core::fmt::Debug for DashMap<K, V> {
    fn fmt(&self, _f: &mut core::fmt::Formatter<'_>) -> core::fmt::Result {
        Ok(())
    }
}
