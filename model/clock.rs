//! The clock as a symbolic variable: arbitrary instants, non-decreasing across calls inside one
//! harness, below 2^52 us (year 2112). Used by the `cfg(kani)` twin of `IggyTimestamp::now`, so that
//! verification and concrete playback read the same recorded values.
use crate::utils::timestamp::IggyTimestamp;

static mut LAST_NOW: u64 = 0;
pub const NOW_MAX: u64 = 1 << 52;

pub fn now() -> IggyTimestamp {
    let t: u64 = kani::any();
    // SAFETY: Kani harnesses and playback tests are single threaded.
    unsafe {
        kani::assume(t >= LAST_NOW && t < NOW_MAX);
        LAST_NOW = t;
    }
    IggyTimestamp::from(t)
}

pub fn last_now() -> u64 {
    unsafe { LAST_NOW }
}
