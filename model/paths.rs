//! Cheap injective encoding of numbers inside model-FS path strings. The repository builds its
//! paths with `format!("{}/{:0>20}", ..)`; std's formatting machinery and `str::parse` are not
//! tractable for CBMC (probe: one concrete `format!` > 140 s, one `parse::<u64>` > 420 s), so the
//! path-producer functions are stubbed with builders that use this encoding and the model
//! directory entry decodes it again. 16 nibbles 'a'..'p', most significant first.

fn nib(x: u64, k: u32) -> char {
    (b'a' + ((x >> (4 * k)) & 0xF) as u8) as char
}

// Unrolled on purpose: no loop, so harness unwind bounds do not depend on the encoding.
pub fn push_u64(s: &mut String, x: u64) {
    s.push(nib(x, 15)); s.push(nib(x, 14)); s.push(nib(x, 13)); s.push(nib(x, 12));
    s.push(nib(x, 11)); s.push(nib(x, 10)); s.push(nib(x, 9)); s.push(nib(x, 8));
    s.push(nib(x, 7)); s.push(nib(x, 6)); s.push(nib(x, 5)); s.push(nib(x, 4));
    s.push(nib(x, 3)); s.push(nib(x, 2)); s.push(nib(x, 1)); s.push(nib(x, 0));
}

pub fn push_u32(s: &mut String, x: u32) {
    let x = x as u64;
    s.push(nib(x, 7)); s.push(nib(x, 6)); s.push(nib(x, 5)); s.push(nib(x, 4));
    s.push(nib(x, 3)); s.push(nib(x, 2)); s.push(nib(x, 1)); s.push(nib(x, 0));
}

fn decode(s: &str, digits: usize) -> Option<u64> {
    let b = s.as_bytes();
    if b.len() != digits {
        return None;
    }
    let mut v: u64 = 0;
    let mut i = 0;
    while i < digits {
        let c = b[i];
        if c < b'a' || c > b'p' {
            return None;
        }
        v = (v << 4) | (c - b'a') as u64;
        i += 1;
    }
    Some(v)
}

pub trait DecodeNum: Sized {
    fn decode(s: &str) -> Option<Self>;
}
impl DecodeNum for u64 {
    fn decode(s: &str) -> Option<u64> {
        decode(s, 16)
    }
}
impl DecodeNum for u32 {
    fn decode(s: &str) -> Option<u32> {
        decode(s, 8).map(|v| v as u32)
    }
}
