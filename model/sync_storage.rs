// HAND-WRITTEN stand-in for server/src/streaming/storage.rs in the de-asynced twin tree.
// The original is pure plumbing: a struct of four `Arc<...StorageKind>` enums that forward to the
// File* implementations. Stream/topic/system-info storage belong to parts of the server that are not
// translated, so only the partition storage and the persister are kept. The forwarding enum and
// the trait are transcribed 1:1 from the original (de-asynced).
use super::persistence::persister::PersisterKind;
use crate::configs::system::SystemConfig;
use crate::state::system::PartitionState;
use crate::verif::sync::streaming::partitions::partition::{ConsumerOffset, Partition};
use crate::verif::sync::streaming::partitions::storage::FilePartitionStorage;
use iggy::consumer::ConsumerKind;
use iggy::error::IggyError;
use std::sync::Arc;

#[derive(Debug)]
pub enum PartitionStorageKind {
    File(FilePartitionStorage),
}

pub trait PartitionStorage: Send {
    fn load(&self, partition: &mut Partition, state: PartitionState) -> Result<(), IggyError>;
    fn save(&self, partition: &mut Partition) -> Result<(), IggyError>;
    fn delete(&self, partition: &Partition) -> Result<(), IggyError>;
    fn save_consumer_offset(&self, offset: u64, path: &str) -> Result<(), IggyError>;
    fn load_consumer_offsets(&self, kind: ConsumerKind, path: &str) -> Result<Vec<ConsumerOffset>, IggyError>;
    fn delete_consumer_offsets(&self, path: &str) -> Result<(), IggyError>;
    fn delete_consumer_offset(&self, path: &str) -> Result<(), IggyError>;
}

#[derive(Debug)]
pub struct SystemStorage {
    pub partition: Arc<PartitionStorageKind>,
    pub persister: Arc<PersisterKind>,
}

impl SystemStorage {
    pub fn new(_config: Arc<SystemConfig>, persister: Arc<PersisterKind>) -> Self {
        Self {
            partition: Arc::new(PartitionStorageKind::File(FilePartitionStorage::new(persister.clone()))),
            persister,
        }
    }
}

impl PartitionStorageKind {
    pub fn load(&self, partition: &mut Partition, state: PartitionState) -> Result<(), IggyError> {
        match self {
            Self::File(d) => d.load(partition, state),
        }
    }
    pub fn save(&self, partition: &mut Partition) -> Result<(), IggyError> {
        match self {
            Self::File(d) => d.save(partition),
        }
    }
    pub fn delete(&self, partition: &Partition) -> Result<(), IggyError> {
        match self {
            Self::File(d) => d.delete(partition),
        }
    }
    pub fn save_consumer_offset(&self, offset: u64, path: &str) -> Result<(), IggyError> {
        match self {
            Self::File(d) => d.save_consumer_offset(offset, path),
        }
    }
    pub fn load_consumer_offsets(&self, kind: ConsumerKind, path: &str) -> Result<Vec<ConsumerOffset>, IggyError> {
        match self {
            Self::File(d) => d.load_consumer_offsets(kind, path),
        }
    }
    pub fn delete_consumer_offsets(&self, path: &str) -> Result<(), IggyError> {
        match self {
            Self::File(d) => d.delete_consumer_offsets(path),
        }
    }
    pub fn delete_consumer_offset(&self, path: &str) -> Result<(), IggyError> {
        match self {
            Self::File(d) => d.delete_consumer_offset(path),
        }
    }
}
