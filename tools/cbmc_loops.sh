#!/bin/bash
# usage: [VERIF_SLOT=n] cbmc_loops.sh <module> <harness> [unwind] [seconds] [lines]
# Debug aid (not part of any check): builds one harness through cargo kani (5 s verification cap), then
# re-runs cbmc verbosely on the goto binary and summarises which loops symbolic execution visits.
mod=$1; h=$2; unwind=${3:-10}; secs=${4:-200}
S=${VERIF_SLOT:-0}; T=/verif/.cache/kani; [ "$S" != "0" ] && T=/verif/.cache/kani$S
mkdir -p /verif/.cache/slot$S
printf '#[path = "/verif/harness/server/%s.rs"]\npub mod %s;\n' $mod $mod > /verif/.cache/slot$S/select_server.rs
[ -f /verif/.cache/slot$S/playback_tests_server.rs ] || echo "// empty" > /verif/.cache/slot$S/playback_tests_server.rs
python3 /verif/tools/deasync.py
cd /repo && VERIF_SELECT_DIR=/verif/.cache/slot$S CARGO_NET_OFFLINE=true cargo kani -p server --lib --no-default-features --features disable-mimalloc -Z stubbing -Z unstable-options --no-assertion-reach-checks --no-memory-safety-checks --harness-timeout 5s --target-dir $T --exact --harness verif::$mod::$h > /verif/.cache/loops_build$S.log 2>&1
f=$(ls -t $T/kani/x86_64-unknown-linux-gnu/debug/build/server/*/out/*${h}.out | head -1)
echo "goto binary: $f"
cd /tmp && timeout $secs cbmc --no-malloc-may-fail --no-undefined-shift-check --no-signed-overflow-check --nan-check --no-self-loops-to-assumptions --no-pointer-primitive-check --no-pointer-check --no-bounds-check --object-bits 16 --unwind $unwind --sat-solver cadical --slice-formula --max-field-sensitivity-array-size 400 "$f" --verbosity 9 > /verif/.cache/cbmc_v$S.log 2>&1
echo "cbmc exit: $?"
grep "Unwinding\|Not unwinding" /verif/.cache/cbmc_v$S.log | sed 's/iteration [0-9]*//' | sed 's/^\(Unwinding\|Not unwinding\) loop [^ ]* *//' | sort | uniq -c | sort -rn | head -${5:-25} | cut -c1-260
grep -n "Runtime\|VERIFICATION\|SAT checker\|Generated" /verif/.cache/cbmc_v$S.log | tail -12
