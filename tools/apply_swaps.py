#!/usr/bin/env python3
"""Apply the cfg(kani) import swaps (hooks) to a checkout of iggy. Idempotent, add-only:
for every listed `use` statement S the file gets

    #[cfg(not(kani))]
    S
    #[cfg(kani)]
    <model import>

Usage: apply_swaps.py [repo_root]   (default /repo)
"""
import re
import sys

ROOT = sys.argv[1] if len(sys.argv) > 1 else "/repo"
M = "iggy::verif_model"
S = "server/src/streaming/"

# (file, original statement (exact text, may span lines), replacement under cfg(kani))
SWAPS = [
    ("sdk/src/locking/tokio_lock.rs",
     "use tokio::sync::{RwLock as TokioRwLock, RwLockReadGuard, RwLockWriteGuard};",
     "use crate::verif_model::lock::{RwLock as TokioRwLock, RwLockReadGuard, RwLockWriteGuard};"),
    ("sdk/src/models/permissions.rs", "use ahash::AHashMap;", "use crate::verif_model::map::AHashMap;"),
    (S + "users/permissioner.rs", "use ahash::{AHashMap, AHashSet};", f"use {M}::map::{{AHashMap, AHashSet}};"),
    (S + "topics/consumer_group.rs", "use ahash::AHashMap;", f"use {M}::map::AHashMap;"),
    (S + "topics/consumer_group.rs", "use tokio::sync::RwLock;", f"use {M}::lock::RwLock;"),
    (S + "topics/consumer_groups.rs", "use tokio::sync::RwLock;", f"use {M}::lock::RwLock;"),
    (S + "topics/messages.rs", "use ahash::AHashMap;", f"use {M}::map::AHashMap;"),
    (S + "topics/topic.rs", "use ahash::AHashMap;", f"use {M}::map::AHashMap;"),
    (S + "topics/topic.rs", "use tokio::sync::RwLock;", f"use {M}::lock::RwLock;"),
    (S + "topics/storage.rs", "use ahash::AHashSet;", f"use {M}::map::AHashSet;"),
    (S + "topics/storage.rs", "use tokio::fs;", f"use {M}::shim::fs;\n#[cfg(kani)]\nuse {M}::shim as tokio;"),
    (S + "topics/storage.rs", "use tokio::fs::create_dir_all;", f"use {M}::fs::create_dir_all;"),
    (S + "topics/storage.rs", "use tokio::sync::{Mutex, RwLock};", f"use {M}::lock::{{Mutex, RwLock}};"),
    (S + "systems/consumer_groups.rs", "use tokio::sync::RwLock;", f"use {M}::lock::RwLock;"),
    (S + "systems/system.rs", "use ahash::AHashMap;", f"use {M}::map::AHashMap;"),
    (S + "systems/system.rs", "use tokio::fs::{create_dir_all, remove_dir_all};", f"use {M}::fs::{{create_dir_all, remove_dir_all}};"),
    (S + "systems/system.rs", "use tokio::sync::{RwLock, RwLockReadGuard, RwLockWriteGuard};",
     f"use {M}::lock::{{RwLock, RwLockReadGuard, RwLockWriteGuard}};"),
    ("server/src/binary/mapper.rs", "use tokio::sync::RwLock;", f"use {M}::lock::RwLock;"),
    ("server/src/http/mapper.rs", "use tokio::sync::RwLock;", f"use {M}::lock::RwLock;"),
    ("server/src/state/system.rs", "use ahash::AHashMap;", f"use {M}::map::AHashMap;"),
    (S + "clients/client_manager.rs", "use ahash::AHashMap;", f"use {M}::map::AHashMap;"),
    (S + "streams/stream.rs", "use ahash::AHashMap;", f"use {M}::map::AHashMap;"),
    (S + "streams/storage.rs", "use ahash::AHashSet;", f"use {M}::map::AHashSet;"),
    (S + "streams/storage.rs", "use tokio::fs;", f"use {M}::shim::fs;\n#[cfg(kani)]\nuse {M}::shim as tokio;"),
    (S + "streams/storage.rs", "use tokio::fs::create_dir_all;", f"use {M}::fs::create_dir_all;"),
    (S + "streams/storage.rs", "use tokio::sync::Mutex;", f"use {M}::lock::Mutex;"),
    (S + "systems/streams.rs", "use ahash::{AHashMap, AHashSet};", f"use {M}::map::{{AHashMap, AHashSet}};"),
    (S + "systems/streams.rs", "use tokio::fs;", f"use {M}::shim::fs;"),
    (S + "systems/streams.rs", "use tokio::fs::read_dir;", f"use {M}::fs::read_dir;"),
    (S + "users/user.rs", "use ahash::AHashMap;", f"use {M}::map::AHashMap;"),
    (S + "partitions/consumer_offsets.rs", "use dashmap::DashMap;", f"use {M}::dashmap::DashMap;"),
    (S + "partitions/partition.rs", "use dashmap::DashMap;", f"use {M}::dashmap::DashMap;"),
    (S + "partitions/persistence.rs", "use tokio::fs::create_dir_all;", f"use {M}::fs::create_dir_all;"),
    (S + "partitions/storage.rs", "use tokio::fs;", f"use {M}::shim::fs;\n#[cfg(kani)]\nuse {M}::shim as tokio;"),
    (S + "partitions/storage.rs", "use tokio::fs::create_dir_all;", f"use {M}::fs::create_dir_all;"),
    (S + "partitions/storage.rs", "use tokio::io::AsyncReadExt;", f"use {M}::fs::io_model::AsyncReadExt;"),
    (S + "segments/segment.rs", "use tokio::fs::remove_file;", f"use {M}::fs::remove_file;\n#[cfg(kani)]\nuse {M}::shim as tokio;"),
    (S + "segments/indexes/index_reader.rs",
     "use std::{\n    fs::{File, OpenOptions},\n    io::ErrorKind,\n    os::unix::fs::FileExt,\n    sync::{\n        atomic::{AtomicU64, Ordering},\n        Arc,\n    },\n};",
     f"use {M}::fs::stdfs::{{File, FileExt, OpenOptions}};\n#[cfg(kani)]\nuse std::{{\n    io::ErrorKind,\n    sync::{{\n        atomic::{{AtomicU64, Ordering}},\n        Arc,\n    }},\n}};"),
    (S + "segments/indexes/index_reader.rs", "use tokio::task::spawn_blocking;", f"use {M}::fs::task::spawn_blocking;"),
    (S + "segments/indexes/index_writer.rs",
     "use tokio::{\n    fs::{File, OpenOptions},\n    io::AsyncWriteExt,\n};",
     f"use {M}::fs::{{io_model::AsyncWriteExt, File, OpenOptions}};"),
    (S + "segments/logs/log_reader.rs",
     "use std::{\n    fs::{File, OpenOptions},\n    os::unix::prelude::FileExt,\n};",
     f"use {M}::fs::stdfs::{{File, FileExt, OpenOptions}};"),
    (S + "segments/logs/log_reader.rs", "use tokio::task::spawn_blocking;", f"use {M}::fs::task::spawn_blocking;"),
    (S + "segments/logs/log_reader.rs", "        #[cfg(not(target_os = \"macos\"))]\n", None),  # stack cfg(not(kani)) on the posix_fadvise block
    (S + "segments/logs/log_writer.rs",
     "use tokio::{\n    fs::{File, OpenOptions},\n    io::AsyncWriteExt,\n};",
     f"use {M}::fs::{{io_model::AsyncWriteExt, File, OpenOptions}};"),
    (S + "segments/logs/mod.rs", "mod persister_task;", "#[path = \"/verif/model/persister_task.rs\"]\nmod persister_task;"),
    (S + "persistence/persister.rs", "use tokio::fs;", f"use {M}::shim::fs;"),
    (S + "persistence/persister.rs", "use tokio::io::AsyncWriteExt;", f"use {M}::fs::io_model::AsyncWriteExt;"),
    (S + "utils/file.rs", "use tokio::fs::{read_dir, remove_file, File, OpenOptions};",
     f"use {M}::fs::{{read_dir, remove_file, File, OpenOptions}};\n#[cfg(kani)]\nuse {M}::shim as tokio;"),
    ("server/src/compat/index_rebuilding/index_rebuilder.rs",
     "use tokio::io::{AsyncReadExt, AsyncSeekExt, AsyncWriteExt, BufReader, BufWriter};",
     f"use {M}::fs::io_model::{{AsyncReadExt, AsyncSeekExt, AsyncWriteExt, BufReader, BufWriter}};\n#[cfg(kani)]\nuse {M}::shim as tokio;"),
    ("server/src/state/file.rs", "use tokio::io::{AsyncReadExt, BufReader};", f"use {M}::fs::io_model::{{AsyncReadExt, BufReader}};"),
    (S + "segments/logs/log_reader.rs", "use bytes::BytesMut;", f"use {M}::bytesmut::BytesMut;"),
    (S + "batching/batch_accumulator.rs", "use bytes::BytesMut;", f"use {M}::bytesmut::BytesMut;"),
    (S + "models/messages.rs", "use bytes::{BufMut, Bytes, BytesMut};", f"use bytes::Bytes;\n#[cfg(kani)]\nuse {M}::bytesmut::{{BufMut, BytesMut}};"),
    ("server/src/state/command.rs", "use bytes::{Buf, BufMut, Bytes, BytesMut};", f"use bytes::{{Buf, Bytes}};\n#[cfg(kani)]\nuse {M}::bytesmut::{{BufMut, BytesMut}};"),
    ("server/src/state/entry.rs", "use bytes::{Buf, BufMut, Bytes, BytesMut};", f"use bytes::{{Buf, Bytes}};\n#[cfg(kani)]\nuse {M}::bytesmut::{{BufMut, BytesMut}};"),
    ("server/src/state/file.rs", "use bytes::{Buf, BufMut, Bytes, BytesMut};", f"use bytes::{{Buf, Bytes}};\n#[cfg(kani)]\nuse {M}::bytesmut::{{BufMut, BytesMut}};"),
    ("server/src/state/models.rs", "use bytes::{BufMut, Bytes, BytesMut};", f"use bytes::Bytes;\n#[cfg(kani)]\nuse {M}::bytesmut::{{BufMut, BytesMut}};"),
    (S + "deduplication/message_deduplicator.rs", "use moka::future::Cache;", f"use {M}::cache::Cache;"),
]


def apply(path, orig, repl):
    p = f"{ROOT}/{path}"
    s = open(p).read()
    if repl is None:
        # stack `#[cfg(not(kani))]` above an existing attribute line
        marker = orig.replace("#[cfg(not(target_os", "#[cfg(not(kani))]\n        #[cfg(not(target_os")
        if marker in s:
            return "present"
        if orig not in s:
            return "MISSING"
        s = s.replace(orig, marker, 1)
        open(p, "w").write(s)
        return "applied"
    new = f"#[cfg(not(kani))]\n{orig}\n#[cfg(kani)]\n{repl}"
    if new in s:
        return "present"
    # match the statement at the start of a line only
    idx = -1
    for m in re.finditer(re.escape(orig), s):
        if m.start() == 0 or s[m.start() - 1] == "\n":
            idx = m.start()
            break
    if idx < 0:
        return "MISSING"
    s = s[:idx] + new + s[idx + len(orig):]
    open(p, "w").write(s)
    return "applied"


bad = 0
for f, o, r in SWAPS:
    st = apply(f, o, r)
    if st == "MISSING":
        bad += 1
    print(f"{st:8} {f}: {o.splitlines()[0]}")
sys.exit(1 if bad else 0)
