#!/usr/bin/env python3
"""Generate MANIFEST.json from the table below (kept in one place so that it stays valid)."""
import json, subprocess

CLAIMS = {
 "C01": ("Inductive step of Partition::append_messages from an arbitrary valid pre-state (symbolic current offset, start offset, buffered message): accepted messages get consecutive offsets in send order, current_offset is the last one, counters move by what was stored. Decided by CBMC for all scalar values within the bounds; the save/roll/restart steps are not yet covered.",
         "de-asynced twin of the real function bodies (tools/deasync.py, regenerated from /repo each run); callees Segment::persist_messages / Partition::add_persisted_segment cut (panic if reached), Segment::is_full summarised for open segments; n<=2 messages quick, 3 thorough; offsets < 2^40"),
 "C02": ("The not-yet-saved buffer (BatchAccumulator) returns exactly the requested offset slice / first n by timestamp for every symbolic range over 1..3 buffered messages, and the cached index lookup selects the batch holding the first requested offset and an end that covers the last, for every 1..3 index records. Tier composition (cache, disk scan, multi-segment) is not yet encoded.",
         "k<=3 messages / index records; base offset < 2^40; relative offsets < 2^30"),
 "C07": ("get-after-store for consumers and groups, refusal beyond the current offset, isolation of a consumer and a group with the same numeric id (both orders), on the real storage path (FilePartitionStorage/persister on the model file system). Thorough tier adds overwrite, delete and reload-after-restart.",
         "de-asynced twin; identities from concrete shapes (ids 5/6), offsets symbolic < 2^40; model FS = durable completed writes"),
 "C15": ("The size gate of Topic::append_messages refuses exactly when (custom limit) and size >= limit and deletion of oldest segments is disabled, for every size/limit/flag; a refused send changes nothing; limit validation (limit < segment size rejected, ServerDefault resolved); is_full/is_almost_full/is_unlimited decision table (almost-full only bracketed).",
         "de-asynced twin; Partition::append_messages cut (the topic reports 1 partition but holds none, so an accepted send ends at PartitionNotFound)"),
 "C17": ("Key-hash partition choice is in [1,count] for EVERY hash value and count>=1; round-robin from any cursor (also stale) lands on an existing partition and visits each once; explicit partition ids: malformed length -> error, unknown id -> PartitionNotFound naming the client's id, nothing stored.",
         "hash value arbitrary (stubbed) for the range property; real xxhash32 determinism only in the thorough tier (keys <= 4 bytes, 3 partitions)"),
}
CLAIMS.update({
 "C09": ("Soundness of the permission rules against the documented hierarchy for ~2^45 permission sets per query (all flags and record presences symbolic): poll/send/get_topic/update/delete/purge/create_topic/get_topics are allowed only if a global, stream or topic record OF THE TARGET grants it (so a record of another stream or topic never opens the target); no rule crashes for any combination of records (stream record without topic table). Thorough tier adds monotonicity in the flags, root, and update/delete taking effect.",
         "real Permissioner::init_permissions_for_user + rule functions over fixed-capacity map models; quick: message rules for target (1,2), topic rules for target (1,1) with the topic table present or absent; thorough adds topic rules for (1,2) and the (1,1) message rules; where the documentation is silent the oracle sides with the implementation; System-level wiring (every entry point calls the rule) is not covered"),
 "C14": ("Segment::is_expired is true exactly for a CLOSED segment with a finite expiry whose newest message is older than the expiry, for every timestamp/now/duration; an open segment is full iff size >= max and is never expired; (thorough) the partition names only closed expired segments, never the one being written.",
         "de-asynced twin; the read of the newest message is summarised (its exactness is C02's subject); clock unit conversion stubbed; deletion I/O and restart clauses not covered"),
})
CLAIMS.update({
 "C10": ("Token-expiry clause only: a personal access token is expired exactly when now >= created + expiry (never for NeverExpire/ServerDefault), validity is monotone in time, and the replay-side test that drops expired tokens at restart agrees with the runtime test, for every creation instant, now and duration.",
         "PersonalAccessToken::{calculate_expiry_at,is_expired,raw}; clock unit conversion stubbed; everything else of C10 (bcrypt password checks, blake3 token digests, login decision table, secrets at rest, JWT) is NOT covered: it needs bcrypt/blake3 or a full System"),
})
CLAIMS.update({
 "C11": ("What FileState::apply writes is what load_entries reads (1 and 2 entries, indices from 0, every header field equal, symbolic user ids and clock) through the real persister on the model file system; index bookkeeping under a failed append is decided too and IS violated (known finding `journalindex`: a failed journal write consumes an index, the next start-up fails with StateFileCorrupted) - the check prints KNOWN-FINDING for it and exits 0.",
         "de-asynced twin; EntryCommand codec and the entry checksum function are stubbed (fixed 9-byte command frame, deterministic checksum stand-in), so tamper evidence under byte corruption is NOT claimed; concurrent applies not covered; fault model = the k-th file write returns Err"),
})
CLAIMS.update({
 "C16": ("Counter updates of the append step: partition / topic / stream message counts and sizes move by exactly the number and stored size of the accepted messages, from an arbitrary valid pre-state; Segment::get_messages_count equals the number of messages the segment holds for every start offset and 1..3 messages.",
         "append path only (Partition::append_messages, Segment::append_batch, Segment::get_messages_count); the save step (+24 header bytes), segment deletion, purge, partition/topic/stream deletion, restart and the statistics endpoint are NOT covered"),
})
CLAIMS.update({
 "C13": ("Binary codec round trips decode(encode(x)) == x for every field value: named identifiers, polling strategies (all five kinds, any value; an arbitrary 9-byte frame decodes to an error or to a value that re-encodes to the same bytes), the three partitioning kinds as they appear inside a send frame, CreateStream (client or server assigned id) and DeleteStream. A narrow slice of C13.",
         "sdk BytesSerializable impls only; NOT covered: commands with several identifiers / numeric identifiers (thorough tier, out of memory in this setup), SendMessages with headers, responses (mapper.rs), journal and on-disk encodings, HTTP/JSON, the effect of malformed frames on other connections"),
})
CLAIMS.update({
 "C04": ("Log-tail clause only: one step of the segment-log scan (SegmentLogReader::read_next_batch, the function every read and restart scan is built on) at each position the scan can reach in a two-record log, for EVERY surviving file length / published size in [0,64] (every torn length of either record, header or payload) and all field and payload values: a record is returned iff it lies completely inside the size, unchanged, with the byte count the scan advances by; a torn trailing record is neither served nor an error nor a panic; nothing is read beyond the size even when the file holds more bytes.",
         "de-asynced twin on the model FS (strict mode: a read past the end is a failure); read_at stubbed by a contract-equal version over a typed buffer; the scan loops around the step are read, not decided; index/offset/state-file tails, segment and partition load, write ordering, no-wait confirmation and fsync are NOT covered (DESIGN.md 0.3, 3/C04)"),
})
PENDING = {
 "C06": "harness file wip/c06_catalogue.rs exists (consumer-group catalogue: unique ids/names, delete, id reuse) but CBMC aborts / exceeds the caps on it; not registered",
 "C08": "harness file wip/c08_consumer_groups.rs exists (assignment exclusivity and balance, rotation) but even a fully concrete re-assignment needs > 6 min of SAT time through the heap-allocated member list; not registered",
 "C18": "harness file wip/c18_dedup.rs exists (dedup branch of Partition::append_messages, 9 equality patterns) but does not finish within the cap; not registered",
}
NA = {
 "C12": "quantifies over interleavings of tokio tasks, a background persister and lock hand-offs; Kani/CBMC execute one thread and tokio's primitives do not compile under Kani (catch_unwind ICE) - the sequential obligations it rests on are checked under C01/C04 harnesses, not relabelled",
 "C19": "AES-256-GCM is out of reach for bit-blasting at useful sizes and with the cipher stubbed 'no plaintext in any file' says nothing about the cipher; the call placement lives in System::append_messages/poll_messages which need a full System",
 "C20": "IggyProducer/IggyConsumer are tokio tasks, channels, timers and a dyn Client over the network composed with a running server; none of it can be driven without a runtime under Kani",
}

def main():
    import os
    props = [json.loads(l)["id"] for l in open("/verif/properties.jsonl")]
    hooks = subprocess.check_output(["git", "-C", "/repo", "log", "--format=%h %s"], text=True).splitlines()
    hook_commits = [l.split()[0] for l in hooks if l.split(" ", 1)[1].startswith("verif hooks")]
    checks = []
    for pid, (text, note) in CLAIMS.items():
        checks.append({
            "property_id": pid,
            "quick_cmd": "./check %s --tier quick" % pid,
            "thorough_cmd": "./check %s --tier thorough" % pid,
            "evidence_file": "/verif/evidence/%s.json" % pid,
            "replay_cmd_template": "./check replay {path}",
            "engine": "kani-cbmc",
            "level_claimed": {"category": "model_checking", "text": text, "design_ref": "DESIGN.md section 3 / " + pid},
            "level_note": note + ". Trusted base: Kani 0.68 MIR->goto translation, CBMC 6.11 + CaDiCaL, the models in /verif/model, the stubs listed in evidence.assumptions. Bounded: nothing is claimed outside the stated bounds.",
            "technique": "bounded model checking of the real code with Kani/CBMC (SAT): symbolic scalars over concrete shapes, unwinding assertions on, cover! vacuity witnesses",
        })
    na = [{"property_id": k, "reason": v} for k, v in NA.items()]
    for p in props:
        if p not in CLAIMS and p not in NA:
            na.append({"property_id": p, "reason": PENDING.get(p, "no check registered yet in this revision (harnesses under construction; see DESIGN.md section 3 for the plan and section 7 for status)")})
    m = {
        "version": 1,
        "setup_cmd": "./check setup",
        "hooks": {
            "guard": "cfg(kani)",
            "enable": "cargo kani sets --cfg kani; the driver ./check builds /repo's server crate with it (harness modules, container/lock/fs model imports, child-module hooks)",
            "baseline_off_cmd": "cd /repo && cargo test --workspace --no-fail-fast --offline",
            "source_commits": hook_commits,
            "add_only": True,
        },
        "engines": [{"name": "kani-cbmc", "path": "/verif/check", "serves_properties": sorted(CLAIMS), "kind_free_text": "Kani 0.68 proof harnesses (in-crate, cfg(kani)) decided by CBMC 6.11/CaDiCaL; de-asynced twin tree regenerated from source by tools/deasync.py"}],
        "checks": checks,
        "not_applicable": sorted(na, key=lambda x: x["property_id"]),
        "notes": "Genuine defects found so far and repaired with fix: commits are listed in known_findings.json (C15 inverted size gate, C07 group offset lookup).",
    }
    json.dump(m, open("/verif/MANIFEST.json", "w"), indent=1)
    print("claimed:", sorted(CLAIMS), "n/a:", [x["property_id"] for x in na])

main()
