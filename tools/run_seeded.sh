#!/bin/bash
# usage: run_seeded.sh <seed dir name> <property> [extra check args]
# applies a seeded change to /repo, runs the property's quick check, reverts the change.
d=/verif/seeded/$1; p=$2; shift 2
cd /repo && git apply $d/patch.diff || exit 9
cd /verif && ./check $p "$@" > /verif/.cache/seed_$p.log 2>&1; rc=$?
cd /repo && git checkout -- . 
echo "seed $d property $p -> exit $rc"; grep "VIOLATION\|INCONCLUSIVE\|quick:\|thorough:" /verif/.cache/seed_$p.log | cut -c1-250
exit $rc
