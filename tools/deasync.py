#!/usr/bin/env python3
"""De-async translation of the storage core of iggy (regenerated from /repo's CURRENT source on every run).

Why: Kani/CBMC compile every `async fn` into a state-machine struct that embeds the state machines of
all callees it awaits. For `Partition::append_messages`, `Segment::persist_messages`, `FilePartitionStorage
::load` ... the nested struct is so large that CBMC's symbolic execution does not get through a single
1-message append in 7 minutes (measured), while the same statements as plain functions are cheap.
Under the single-task model in which every await is immediately ready (the only schedule Kani can execute
anyway) `async fn f` / `f().await` and `fn f` / `f()` denote the same computation, so the translation

    async fn        -> fn
    expr.await      -> expr
    async move {..} -> {..}
    -> impl Future<Output = T> + Send   -> -> T

is semantics-preserving for that schedule. It is purely syntactic, applied to verbatim copies of the
repository's files; nothing else in the function bodies is touched. The copies live in a parallel module
tree `crate::verif::sync::...` whose layout mirrors `server/src`, so privacy works exactly as in the original.

usage: deasync.py [repo_root] [out_dir]
"""
import os
import re
import sys

ROOT = sys.argv[1] if len(sys.argv) > 1 else "/repo"
OUT = sys.argv[2] if len(sys.argv) > 2 else "/verif/.cache/sync_tree"
MODEL_OUT = os.path.join(os.path.dirname(OUT.rstrip("/")), "model_sync")
SRC = os.path.join(ROOT, "server/src")

# files translated (relative to server/src). mod.rs files are generated from the originals with the
# `mod` lines of excluded modules dropped.
INCLUDE = [
    "streaming/batching/appendable_batch_info.rs", "streaming/batching/batch_accumulator.rs",
    "streaming/batching/batch_filter.rs", "streaming/batching/iterator.rs", "streaming/batching/message_batch.rs",
    "streaming/batching/mod.rs",
    "streaming/cache/buffer.rs", "streaming/cache/memory_tracker.rs", "streaming/cache/mod.rs",
    "streaming/deduplication/message_deduplicator.rs", "streaming/deduplication/mod.rs",
    "streaming/models/messages.rs", "streaming/models/mod.rs",
    "streaming/partitions/consumer_offsets.rs", "streaming/partitions/messages.rs", "streaming/partitions/mod.rs",
    "streaming/partitions/partition.rs", "streaming/partitions/persistence.rs", "streaming/partitions/segments.rs",
    "streaming/partitions/storage.rs",
    "streaming/persistence/persister.rs", "streaming/persistence/mod.rs",
    "streaming/segments/mod.rs", "streaming/segments/reading_messages.rs", "streaming/segments/segment.rs",
    "streaming/segments/writing_messages.rs",
    "streaming/segments/indexes/mod.rs", "streaming/segments/indexes/index.rs",
    "streaming/segments/indexes/index_reader.rs", "streaming/segments/indexes/index_writer.rs",
    "streaming/segments/logs/mod.rs", "streaming/segments/logs/log_reader.rs", "streaming/segments/logs/log_writer.rs",
    "streaming/utils/file.rs", "streaming/utils/hash.rs", "streaming/utils/mod.rs",
    "streaming/local_sizeable.rs", "streaming/polling_consumer.rs",
    "streaming/topics/mod.rs", "streaming/topics/topic.rs", "streaming/topics/messages.rs",
    "streaming/topics/consumer_group.rs", "streaming/topics/consumer_groups.rs", "streaming/topics/consumer_offsets.rs",
    "streaming/topics/partitions.rs", "streaming/topics/segments.rs",
    "streaming/mod.rs",
    "compat/mod.rs", "compat/index_rebuilding/mod.rs", "compat/index_rebuilding/index_rebuilder.rs",
    "state/mod.rs", "state/file.rs", "state/entry.rs", "state/command.rs", "state/models.rs",
]
# hand-written stand-ins (pure plumbing that refers to parts of the server outside the translated set)
HANDWRITTEN = {
    "streaming/storage.rs": "/verif/model/sync_storage.rs",
}
# module prefixes (crate-relative) that exist in the twin tree
TWIN_PREFIXES = [
    "streaming::batching", "streaming::cache", "streaming::deduplication", "streaming::models",
    "streaming::partitions", "streaming::persistence", "streaming::segments", "streaming::utils",
    "streaming::local_sizeable", "streaming::polling_consumer", "streaming::storage", "streaming::topics",
    "compat::index_rebuilding",
    "state::file", "state::entry", "state::command", "state::models",
]
MODEL_RENAMES = [
    ("iggy::verif_model::fs", "iggy::verif_model::fs_sync"),
    ("iggy::verif_model::lock", "iggy::verif_model::lock_sync"),
    ("iggy::verif_model::cache", "iggy::verif_model::cache_sync"),
    ("iggy::verif_model::shim", "iggy::verif_model::shim_sync"),
]


def strip_test_modules(src):
    """remove `#[cfg(test)] mod tests { ... }` blocks (brace matched; the test modules contain no
    unbalanced braces inside string literals in this repository)"""
    while True:
        m = re.search(r"\n#\[cfg\(test\)\]\n(pub )?mod tests? \{", src)
        if not m:
            return src
        i = m.end()
        depth = 1
        while i < len(src) and depth:
            c = src[i]
            if c == "{":
                depth += 1
            elif c == "}":
                depth -= 1
            i += 1
        src = src[:m.start()] + "\n" + src[i:]


def deasync(src):
    src = strip_test_modules(src)
    src = re.sub(r"\basync\s+fn\b", "fn", src)
    src = re.sub(r"\basync\s+move\s*\{", "{", src)
    src = re.sub(r"\basync\s*\{", "{", src)
    src = re.sub(r"\s*\.await\b", "", src)
    src = re.sub(r"->\s*impl\s+Future<Output\s*=\s*(.+?)>\s*\+\s*Send", r"-> \1", src, flags=re.S)
    return src


def included_mods(dirpath):
    """names of submodules of `dirpath` (relative dir) that exist in the twin tree"""
    names = set()
    for f in INCLUDE + list(HANDWRITTEN):
        d, b = os.path.split(f)
        if d == dirpath and b != "mod.rs":
            names.add(b[:-3])
        elif os.path.dirname(d) == dirpath and b == "mod.rs":
            names.add(os.path.basename(d))
        elif d.startswith(dirpath + "/") and d[len(dirpath) + 1:].count("/") == 0 and dirpath != d:
            names.add(d[len(dirpath) + 1:])
    return names


def fix_mod_rs(rel, src):
    d = os.path.dirname(rel)
    keep = included_mods(d)
    out = []
    for line in src.splitlines():
        m = re.match(r"\s*(pub(\([a-z]+\))? )?mod (\w+);", line)
        prev = out[-1].strip() if out else ""
        if m and m.group(3) not in keep and m.group(3) != "verif_hook" and not prev.startswith("#[path") and prev != "#[cfg(not(kani))]":
            # a dropped module: remember to drop a preceding attribute line too
            while out and out[-1].strip().startswith("#["):
                out.pop()
            continue
        out.append(line)
    return "\n".join(out) + "\n"


def rewrite_paths(src):
    for p in TWIN_PREFIXES:
        src = re.sub(r"\bcrate::" + re.escape(p) + r"\b", "crate::verif::sync::" + p, src)
    # `use crate::{ a::b, streaming::x::y }` grouped imports
    def grp(m):
        body = m.group(1)
        for p in TWIN_PREFIXES:
            body = re.sub(r"(?<![\w:])" + re.escape(p) + r"\b", "verif::sync::" + p, body)
        return "use crate::{" + body + "}"
    src = re.sub(r"use crate::\{(.*?)\}", grp, src, flags=re.S)
    src = re.sub(r"\bcrate::streaming::\{", "crate::verif::sync::streaming::{", src)
    for a, b in MODEL_RENAMES:
        src = re.sub(re.escape(a) + r"\b", b, src)
    src = src.replace("use iggy::locking::IggySharedMutFn;", "use iggy::verif_model::shared_sync::IggySharedMutFn;")
    src = src.replace("use iggy::locking::IggySharedMut;", "use iggy::verif_model::shared_sync::IggySharedMut;")
    return src


def write_if_changed(path, text):
    os.makedirs(os.path.dirname(path), exist_ok=True)
    if os.path.exists(path) and open(path).read() == text:
        return
    with open(path, "w") as f:
        f.write(text)


def main():
    produced = set()
    for rel in INCLUDE:
        src = open(os.path.join(SRC, rel)).read()
        if rel.endswith("mod.rs"):
            src = fix_mod_rs(rel, src)
        src = rewrite_paths(deasync(src))
        # hook files that opt in (`// @deasync` marker) are de-asynced for the twin as well, so that a hook
        # can wrap an `async fn` of its parent and be called synchronously from twin harnesses
        def hook_path(m):
            name = m.group(1)
            hsrc = open("/verif/harness/server/hooks/%s.rs" % name).read()
            if "// @deasync" not in hsrc:
                return m.group(0)
            out = "/verif/.cache/sync_hooks/%s.rs" % name
            write_if_changed(out, "// GENERATED by /verif/tools/deasync.py from /verif/harness/server/hooks/%s.rs\n" % name + deasync(hsrc))
            return '#[path = "%s"]' % out
        src = re.sub(r'#\[path = "/verif/harness/server/hooks/(\w+)\.rs"\]', hook_path, src)
        if rel.startswith("state/"):
            # items of the state module root (trait State, StateEntry re-exports, COMPONENT)
            src = re.sub(r"\bcrate::state::\{", "crate::verif::sync::state::{", src)
            src = re.sub(r"\bcrate::state::(State|StateKind|COMPONENT)\b", r"crate::verif::sync::state::\1", src)
        hdr = "// GENERATED by /verif/tools/deasync.py from server/src/%s — do not edit\n" % rel
        write_if_changed(os.path.join(OUT, rel), hdr + src)
        produced.add(rel)
    for rel, hw in HANDWRITTEN.items():
        write_if_changed(os.path.join(OUT, rel), open(hw).read())
        produced.add(rel)
    write_if_changed(os.path.join(OUT, "mod.rs"),
                     "// GENERATED: root of the de-asynced twin tree (see /verif/tools/deasync.py)\n"
                     "#![allow(dead_code, unused_imports, unused_variables, unused_mut, clippy::all)]\n"
                     "pub mod compat;\npub mod state;\npub mod streaming;\n")
    # remove stale files
    for dp, _, fs in os.walk(OUT):
        for f in fs:
            rel = os.path.relpath(os.path.join(dp, f), OUT)
            if rel != "mod.rs" and rel not in produced:
                os.remove(os.path.join(dp, f))
    # sync versions of the models
    for name in ("fs", "lock", "cache", "shim"):
        src = open("/verif/model/%s.rs" % name).read()
        src = deasync(src)
        src = src.replace("crate::verif_model::fs::", "crate::verif_model::fs_sync::")
        src = src.replace("crate::verif_model::lock::", "crate::verif_model::lock_sync::")
        src = src.replace("super::task", "super::task_sync")
        src = src.replace("super::super::fs::", "super::super::fs_sync::")
        write_if_changed(os.path.join(MODEL_OUT, name + ".rs"),
                         "// GENERATED by /verif/tools/deasync.py from /verif/model/%s.rs\n" % name + src)


if __name__ == "__main__":
    main()
