//! @property C07
//! @enc Partition::{store_consumer_offset, get_consumer_offset, delete_consumer_offset, load_consumer_offsets, store_offset, get_consumer_offsets, get_next_messages (offset selection)} , FilePartitionStorage::{save_consumer_offset, load_consumer_offsets, delete_consumer_offset}, PersisterKind::File::overwrite, utils::file::{overwrite, open} (all de-asynced twins) on the model file system
//! @bounds identities A, B from the concrete shapes {Consumer 5 / Group 5 (same numeric id), Consumer 5 / Consumer 6, Group 5 / Group 6, Group 5 / Consumer 6} (ids are only compared for equality and used as map keys / file names, so two distinct values per kind cover the cases); offsets and current_offset any u64 < 2^40; one partition; DashMap model capacity 4
//! @model DashMap -> fixed array map; tokio::fs -> model FS (durable completed writes); directory names decode ids with the inverse of the path-stub encoding
//! @out named consumers (name hash -> id collisions are inherent); offsets of a second partition share no state by construction (separate Partition objects) and are not re-checked
use super::su::*;
use super::util::system_config;
use crate::verif::sync::streaming::partitions::partition::Partition;
use crate::verif::sync::streaming::polling_consumer::PollingConsumer;
use iggy::error::IggyError;
use iggy::verif_model::fs_sync as mfs;
use std::sync::Arc;

const OFF_MAX: u64 = 1 << 40;

fn mk(group: bool, id: u32) -> PollingConsumer {
    if group { PollingConsumer::ConsumerGroup(id, 7) } else { PollingConsumer::Consumer(id, 1) }
}

macro_rules! partition_with_offset_dirs {
    ($p:ident, $cur:ident) => {
        mfs::strict(true); // no I/O error is injected in these harnesses
        typed_arc!(__cfg: crate::configs::system::SystemConfig = system_config());
        let __st = storage(&__cfg);
        let __c = counters();
        let mut $p = new_partition(&__cfg, &__st, &__c, false, false);
        mfs::create_dir_all($p.consumer_offsets_path.as_str()).unwrap();
        mfs::create_dir_all($p.consumer_group_offsets_path.as_str()).unwrap();
        let $cur: u64 = kani::any();
        kani::assume($cur < OFF_MAX);
        $p.current_offset = $cur;
        core::mem::forget(__st);
    };
}

// H1: get-after-store for a consumer and for a group; refusal beyond the current offset
fn get_after_store(group: bool) {
    partition_with_offset_dirs!(p, cur);
    let a = mk(group, 5);
    let o: u64 = kani::any();
    kani::assume(o < OFF_MAX);
    assert!(p.get_consumer_offset(a).unwrap() == None); // nothing stored yet
    let r = p.store_consumer_offset(a, o);
    if o > cur {
        assert!(matches!(r, Err(IggyError::InvalidOffset(_))), "storing beyond the current offset must be refused");
        assert!(p.get_consumer_offset(a).unwrap() == None);
    } else {
        assert!(r.is_ok());
        assert!(p.get_consumer_offset(a).unwrap() == Some(o), "get after store must return the stored offset");
    }
    kani::cover!(o <= cur, "offset stored");
    kani::cover!(o > cur, "refused");
    core::mem::forget(p);
}
fn overwrite(group: bool) {
    partition_with_offset_dirs!(p, cur);
    let a = mk(group, 5);
    let o: u64 = kani::any();
    let o2: u64 = kani::any();
    kani::assume(o <= cur && o2 <= cur);
    p.store_consumer_offset(a, o).unwrap();
    p.store_consumer_offset(a, o2).unwrap();
    assert!(p.get_consumer_offset(a).unwrap() == Some(o2), "get must return the most recently stored offset");
    kani::cover!(o != o2, "value changed");
    core::mem::forget(p);
}
harness_sync! { #[kani::unwind(5)] fn c07_overwrite_consumer_t() { overwrite(false) } }

// overwrite, with the disk write summarised (cheap enough for the quick tier): a second store for the
// same identity replaces the first - whether it is higher, equal or LOWER - in memory and in what is
// handed to the storage layer.
fn overwrite_summarised(group: bool) {
    partition_with_offset_dirs!(p, cur);
    let a = mk(group, 5);
    let o: u64 = kani::any();
    let o2: u64 = kani::any();
    kani::assume(o <= cur && o2 <= cur);
    p.store_consumer_offset(a, o).unwrap();
    p.store_consumer_offset(a, o2).unwrap();
    assert!(p.get_consumer_offset(a).unwrap() == Some(o2), "get must return the most recently stored offset");
    unsafe {
        assert!(crate::verif::su::LAST_SAVED_OFFSET == Some(o2), "the most recently stored offset was not written to storage");
        assert!(crate::verif::su::SAVE_CALLS == 2);
    }
    kani::cover!(o2 < o, "rewind");
    kani::cover!(o2 > o, "advance");
    core::mem::forget(p);
}
harness_sync! {
  #[kani::stub(crate::verif::sync::streaming::partitions::storage::FilePartitionStorage::save_consumer_offset, crate::verif::su::summary_save_consumer_offset)]
  #[kani::unwind(5)] fn c07_overwrite_replaces_consumer() { overwrite_summarised(false) } }
harness_sync! {
  #[kani::stub(crate::verif::sync::streaming::partitions::storage::FilePartitionStorage::save_consumer_offset, crate::verif::su::summary_save_consumer_offset)]
  #[kani::unwind(5)] fn c07_overwrite_replaces_group() { overwrite_summarised(true) } }
harness_sync! { #[kani::unwind(5)] fn c07_overwrite_group_t() { overwrite(true) } }
harness_sync! { #[kani::unwind(5)] fn c07_get_after_store_consumer() { get_after_store(false) } }
harness_sync! { #[kani::unwind(5)] fn c07_get_after_store_group() { get_after_store(true) } }

// H2: isolation between identities, including a consumer and a group with the same numeric id
fn isolation(ga: bool, ia: u32, gb: bool, ib: u32) {
    partition_with_offset_dirs!(p, cur);
    let a = mk(ga, ia);
    let b = mk(gb, ib);
    let o1: u64 = kani::any();
    let o2: u64 = kani::any();
    kani::assume(o1 <= cur && o2 <= cur);
    p.store_consumer_offset(a, o1).unwrap();
    assert!(p.get_consumer_offset(b).unwrap() == None, "an offset stored by one identity is visible to another");
    p.store_consumer_offset(b, o2).unwrap();
    assert!(p.get_consumer_offset(a).unwrap() == Some(o1), "an offset was altered by another identity's store");
    assert!(p.get_consumer_offset(b).unwrap() == Some(o2));
    kani::cover!(o1 != o2, "different offsets");
    core::mem::forget(p);
}
fn delete_one(ga: bool, ia: u32, gb: bool, ib: u32) {
    partition_with_offset_dirs!(p, cur);
    let a = mk(ga, ia);
    let b = mk(gb, ib);
    let o1: u64 = kani::any();
    let o2: u64 = kani::any();
    kani::assume(o1 <= cur && o2 <= cur);
    p.store_consumer_offset(a, o1).unwrap();
    p.store_consumer_offset(b, o2).unwrap();
    p.delete_consumer_offset(b).unwrap();
    assert!(p.get_consumer_offset(b).unwrap() == None, "deleted offset still visible");
    assert!(p.get_consumer_offset(a).unwrap() == Some(o1), "deleting one identity's offset disturbed another's");
    assert!(!mfs::fs().exists(crate::verif::su::consumer_offset_new_stub(if gb { iggy::consumer::ConsumerKind::ConsumerGroup } else { iggy::consumer::ConsumerKind::Consumer }, ib, 0, if gb { p.consumer_group_offsets_path.as_str() } else { p.consumer_offsets_path.as_str() }).path.as_str()), "offset file not removed");
    kani::cover!(o1 != o2, "different offsets");
    core::mem::forget(p);
}
harness_sync! { #[kani::unwind(5)] fn c07_delete_group_keeps_consumer_same_id_t() { delete_one(false, 5, true, 5) } }
harness_sync! { #[kani::unwind(5)] fn c07_delete_consumer_keeps_consumer_t() { delete_one(false, 5, false, 6) } }
harness_sync! { #[kani::unwind(5)] fn c07_isolation_consumer_vs_group_same_id() { isolation(false, 5, true, 5) } }
harness_sync! { #[kani::unwind(5)] fn c07_isolation_group_vs_consumer_same_id_t() { isolation(true, 5, false, 5) } }
harness_sync! { #[kani::unwind(5)] fn c07_isolation_two_consumers_t() { isolation(false, 5, false, 6) } }
harness_sync! { #[kani::unwind(5)] fn c07_isolation_two_groups_t() { isolation(true, 5, true, 6) } }

// H4: durability: what was stored is what a fresh partition object loads from the same files;
// a deleted offset is not loaded again
fn survives_restart(ga: bool, ia: u32, gb: bool, ib: u32) {
    partition_with_offset_dirs!(p, cur);
    let a = mk(ga, ia);
    let b = mk(gb, ib);
    let o1: u64 = kani::any();
    let o2: u64 = kani::any();
    kani::assume(o1 <= cur && o2 <= cur);
    p.store_consumer_offset(a, o1).unwrap();
    p.store_consumer_offset(b, o2).unwrap();
    let del: bool = kani::any();
    if del {
        p.delete_consumer_offset(b).unwrap();
    }
    // "restart": a new partition object over the same model files
    typed_arc!(cfg2: crate::configs::system::SystemConfig = system_config());
    let st2 = storage(&cfg2);
    let c2 = counters();
    let mut q = new_partition(&cfg2, &st2, &c2, false, false);
    q.current_offset = cur;
    q.load_consumer_offsets().unwrap();
    assert!(q.get_consumer_offset(a).unwrap() == Some(o1), "stored offset lost or changed by a restart");
    assert!(q.get_consumer_offset(b).unwrap() == if del { None } else { Some(o2) });
    kani::cover!(del, "deleted before restart");
    kani::cover!(!del, "both survive");
    core::mem::forget(p);
    core::mem::forget(q);
    core::mem::forget(st2);
}
harness_sync! { #[kani::unwind(5)] fn c07_survives_restart_consumer_and_group_t() { survives_restart(false, 5, true, 5) } }
harness_sync! { #[kani::unwind(5)] fn c07_survives_restart_two_groups_t() { survives_restart(true, 5, true, 6) } }
