//! @property C11
//! @enc FileState::{init, apply, load_entries} (de-asynced twin), StateEntry::{new, to_bytes, calculate_checksum}, PersisterKind::File::{append, overwrite}, utils::file::{append, overwrite, open} on the model file system
//! @bounds journals of <= 3 applied commands; each append may fail (fault plan: the k-th file write returns Err, k symbolic); user ids and the clock symbolic
//! @stub StateEntry::calculate_checksum -> deterministic stand-in over the same arguments; EntryCommand::{to_bytes, from_bytes} -> fixed 9-byte command frame / always-Ok parse (the command codec is C13's subject; the journal framing, index allocation and checksum placement are what is encoded here); checksum -> cheap stand-in (tamper evidence, which depends on CRC-32 itself, is NOT claimed by these harnesses)
//! @out schedules (two commands journalled concurrently); tamper-evidence under byte corruption; encryption
use super::util::static_bytes;
use crate::verif::sync::state::command::EntryCommand;
use crate::verif::sync::state::file::verif_hook::new_state;
use crate::verif::sync::state::State;
use crate::verif::sync::streaming::persistence::persister::{FilePersister, PersisterKind};
use bytes::Bytes;
use iggy::error::IggyError;
use iggy::streams::purge_stream::PurgeStream;
use iggy::verif_model::fs_sync as mfs;
use std::sync::Arc;

pub fn command_to_bytes_stub(_c: &EntryCommand) -> Bytes {
    // code = 1, length = 1, payload = 1 byte (the repository copies command bytes with byte-wise
    // `BytesMut::extend`, whose loop has to fit the harness unwind bound)
    static_bytes(vec![1, 0, 0, 0, 1, 0, 0, 0, 9])
}
pub fn command_from_bytes_stub(_b: Bytes) -> Result<EntryCommand, IggyError> {
    Ok(EntryCommand::PurgeStream(PurgeStream::default()))
}

/// stand-in for StateEntry::calculate_checksum: any deterministic function of the same arguments
/// (tamper evidence is not claimed here; writer and loader call the same function)
#[allow(clippy::too_many_arguments)]
pub fn entry_checksum_stub(index: u64, term: u64, leader_id: u32, version: u32, flags: u64, _ts: iggy::utils::timestamp::IggyTimestamp, user_id: u32, _context: &Bytes, _command: &Bytes) -> u32 {
    (index as u32) ^ (term as u32) ^ leader_id ^ version ^ (flags as u32) ^ user_id ^ 0x5a5a_5a5a
}

fn cmd() -> EntryCommand {
    EntryCommand::PurgeStream(PurgeStream::default())
}

macro_rules! journal_harness {
    ($(#[$m:meta])* fn $name:ident() $body:block) => {
        harness_stream! {
            #[kani::stub(<crate::verif::sync::state::command::EntryCommand as iggy::bytes_serializable::BytesSerializable>::to_bytes, crate::verif::c11_journal::command_to_bytes_stub)]
            #[kani::stub(<crate::verif::sync::state::command::EntryCommand as iggy::bytes_serializable::BytesSerializable>::from_bytes, crate::verif::c11_journal::command_from_bytes_stub)]
            #[kani::stub(crate::verif::sync::state::entry::StateEntry::calculate_checksum, crate::verif::c11_journal::entry_checksum_stub)]
            $(#[$m])*
            fn $name() $body
        }
    };
}

// H1: what apply writes is what load_entries reads: indices 0.., fields equal
journal_harness! { #[kani::unwind(4)] fn c11_single_entry_write_load() {
    mfs::strict(true);
    let st = new_state("j", Arc::new(PersisterKind::File(FilePersister)));
    assert!(st.init().unwrap().is_empty());
    let u1: u32 = kani::any();
    st.apply(u1, cmd()).unwrap();
    let e = st.load_entries().unwrap();
    assert!(e.len() == 1);
    assert!(e[0].index == 0 && e[0].user_id == u1 && e[0].version == 1 && e[0].term == 0);
    kani::cover!(u1 == 77, "some user");
    core::mem::forget(e); core::mem::forget(st);
} }

journal_harness! { #[kani::unwind(4)] fn c11_two_entries_write_load() {
    mfs::strict(true);
    let st = new_state("j", Arc::new(PersisterKind::File(FilePersister)));
    mfs::OpenOptions::new().write(true).create(true).open("j").unwrap();
    let u1: u32 = kani::any();
    let u2: u32 = kani::any();
    st.apply(u1, cmd()).unwrap();
    st.apply(u2, cmd()).unwrap();
    let e = st.load_entries().unwrap();
    assert!(e.len() == 2);
    assert!(e[0].index == 0 && e[1].index == 1, "journal indices are not consecutive from 0");
    assert!(e[0].user_id == u1 && e[1].user_id == u2);
    assert!(e[0].timestamp.as_micros() <= e[1].timestamp.as_micros());
    kani::cover!(u1 != u2, "distinct users");
    core::mem::forget(e); core::mem::forget(st);
} }

// a fresh FileState over the same file resumes at last index + 1
journal_harness! { #[kani::unwind(4)] fn c11_restart_resumes_at_next_index_t() {
    mfs::strict(true);
    let st = new_state("j", Arc::new(PersisterKind::File(FilePersister)));
    mfs::OpenOptions::new().write(true).create(true).open("j").unwrap();
    st.apply(1, cmd()).unwrap();
    st.apply(2, cmd()).unwrap();
    let st2 = new_state("j", Arc::new(PersisterKind::File(FilePersister)));
    assert!(st2.init().unwrap().len() == 2);
    st2.apply(7, cmd()).unwrap();
    let e2 = st2.load_entries().unwrap();
    assert!(e2.len() == 3 && e2[2].index == 2, "index after restart is not last + 1");
    kani::cover!(true, "reached");
    core::mem::forget(e2); core::mem::forget(st); core::mem::forget(st2);
} }

// H2: "whichever journal writes fail, the journal on disk consists of entries with consecutive
// indices so that the server can start from it": one append fails (returns Err to the caller, which
// reports the command as failed), later ones succeed.
fn failed_append(first_fails: bool) {
    mfs::strict(true); // only the injected write failure produces an error
    let st = new_state("j", Arc::new(PersisterKind::File(FilePersister)));
    st.init().unwrap();
    if !first_fails {
        st.apply(1, cmd()).unwrap();
    }
    // the next file write fails without changing the file
    let k = mfs::fs().ops;
    mfs::fs().fail_at = Some(k);
    let r = st.apply(2, cmd());
    assert!(r.is_err(), "a failed journal write must be reported to the caller");
    mfs::fs().fail_at = None;
    st.apply(3, cmd()).unwrap();
    let loaded = st.load_entries();
    assert!(loaded.is_ok(), "after a failed append followed by a successful one the journal no longer loads");
    let e = loaded.unwrap();
    let want = if first_fails { 1 } else { 2 };
    assert!(e.len() == want);
    let mut i = 0;
    while i < want {
        assert!(e[i].index == i as u64, "journal indices are not consecutive from 0 after a failed append");
        i += 1;
    }
    kani::cover!(true, "reached");
    core::mem::forget(e); core::mem::forget(st);
}
journal_harness! { #[kani::unwind(4)] fn c11_failed_append_in_the_middle_kf_journalindex() { failed_append(false) } }
journal_harness! { #[kani::unwind(4)] fn c11_failed_first_append_kf_journalindex() { failed_append(true) } }



// restart on a journal with one entry: the next command continues at index 1 and the journal loads
journal_harness! { #[kani::unwind(4)] fn c11_restart_after_one_entry_continues_at_next_index() {
    mfs::strict(true);
    let st = new_state("j", Arc::new(PersisterKind::File(FilePersister)));
    mfs::OpenOptions::new().write(true).create(true).open("j").unwrap();
    st.apply(1, cmd()).unwrap();
    // "restart": a fresh FileState over the same file
    let st2 = new_state("j", Arc::new(PersisterKind::File(FilePersister)));
    let loaded = st2.init().unwrap();
    assert!(loaded.len() == 1 && loaded[0].index == 0);
    st2.apply(7, cmd()).unwrap();
    let r = st2.load_entries();
    assert!(r.is_ok(), "after a restart and one more command the journal no longer loads");
    let e = r.unwrap();
    assert!(e.len() == 2 && e[0].index == 0 && e[1].index == 1, "index after restart is not last + 1");
    kani::cover!(true, "reached");
    core::mem::forget(loaded); core::mem::forget(e); core::mem::forget(st); core::mem::forget(st2);
} }
