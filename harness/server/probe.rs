//! @property C97
use super::su::*;
use super::util::system_config;
use std::sync::Arc;
harness_sync! { #[kani::unwind(10)] fn c97_z1t_append_fresh_typed() {
    let cfg = Arc::new(system_config());
    let st = storage(&cfg);
    let c = counters();
    let mut p = new_partition(&cfg, &st, &c, true, false);
    typed_segments!(p);
    typed_msg_vec!(msgs, message(1, vec![0]));
    let info = batch_info(&msgs);
    let r = p.append_messages(info, msgs, None);
    assert!(r.is_ok());
    assert!(p.current_offset == 0);
    core::mem::forget(p);
} }
harness_sync! { #[kani::unwind(10)] fn c97_z1f_append_fresh_typed_forbid() {
    let cfg = Arc::new(system_config());
    let st = storage(&cfg);
    let c = counters();
    let mut p = new_partition(&cfg, &st, &c, true, false);
    typed_segments!(p);
    iggy::verif_model::fs_sync::forbid(true);
    typed_msg_vec!(msgs, message(1, vec![0]));
    let info = batch_info(&msgs);
    let r = p.append_messages(info, msgs, None);
    assert!(r.is_ok());
    assert!(p.current_offset == 0);
    core::mem::forget(p);
} }
harness_sync! { #[kani::unwind(10)] fn c97_z3_append_flush_read() {
    let cfg = Arc::new(system_config());
    let st = storage(&cfg);
    let c = counters();
    let mut p = new_partition(&cfg, &st, &c, true, true);
    typed_segments!(p);
    typed_msg_vec!(msgs, message(1, vec![7]));
    let info = batch_info(&msgs);
    p.append_messages(info, msgs, None).unwrap();
    p.flush_unsaved_buffer(false).unwrap();
    let got = p.get_messages_by_offset(0, 1).unwrap();
    assert!(got.len() == 1);
    assert!(got[0].payload[0] == 7);
    core::mem::forget(got);
    core::mem::forget(p);
} }
