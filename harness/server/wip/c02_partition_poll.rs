//! @property C02 C14
//! @enc Partition::{get_messages_by_offset, get_first_messages, get_last_messages, get_next_messages, get_end_offset, filter_segments_by_offsets, get_messages_from_segments, try_get_messages_from_cache} (de-asynced twins): which segments are asked for what, and how the answers are joined
//! @bounds two segments (closed [E, E+1], open [E+2, E+3]) with SYMBOLIC earliest retained offset E < 2^40 (E > 0 = retention has removed the beginning of the log); poll start offset any u64, count from {1,2,3} quick / {5,6} thorough (concrete per harness); message cache disabled
//! @stub Segment::get_messages_by_offset -> summary: the contract of the per-segment read (clamp below the segment start, exact slice up to its current offset), whose buffer and index tiers are decided by the c02_acc_* / c02_index_* harnesses; the disk scan itself is not encoded
//! @out cache tier; timestamp polls across segments; more than two segments
use super::su::*;
use super::util::system_config;
use crate::verif::sync::streaming::models::messages::RetainedMessage;
use crate::verif::sync::streaming::polling_consumer::PollingConsumer;
use crate::verif::sync::streaming::segments::Segment;
use iggy::error::IggyError;
use std::sync::Arc;

const OFF_MAX: u64 = 1 << 40;

/// contract of `Segment::get_messages_by_offset(offset, count)`: messages of this segment with offsets
/// in [max(offset, start), max(offset, start) + count - 1], up to the segment's current offset
pub fn segment_read_summary(s: &Segment, offset: u64, count: u32) -> Result<Vec<Arc<RetainedMessage>>, IggyError> {
    let mut out = Vec::new();
    if count == 0 {
        return Ok(out);
    }
    let from = if offset < s.start_offset { s.start_offset } else { offset };
    let to = from + (count - 1) as u64;
    // segments in this harness hold exactly two messages: start and start + 1
    if s.start_offset >= from && s.start_offset <= to { out.push(retained(s.start_offset, 1, s.start_offset as u128, vec![0])); }
    if s.start_offset + 1 >= from && s.start_offset + 1 <= to { out.push(retained(s.start_offset + 1, 1, (s.start_offset + 1) as u128, vec![0])); }
    Ok(out)
}

macro_rules! two_segment_partition {
    ($p:ident, $e:ident) => {
        typed_arc!(__cfg: crate::configs::system::SystemConfig = system_config());
        let __st = storage(&__cfg);
        let __c = counters();
        let mut $p = new_partition(&__cfg, &__st, &__c, true, false);
        let $e: u64 = kani::any();
        kani::assume($e < OFF_MAX);
        {
            let a = $p.segments.last_mut().unwrap();
            a.start_offset = $e;
            a.current_offset = $e + 1;
            a.end_offset = $e + 1;
            a.is_closed = true;
            a.size_bytes = iggy::utils::byte_size::IggyByteSize::from(92u64);
        }
        let mut b = segment($e + 2, __cfg.clone());
        b.current_offset = $e + 3;
        b.size_bytes = iggy::utils::byte_size::IggyByteSize::from(92u64);
        $p.segments.push(b);
        typed_segments!($p);
        $p.current_offset = $e + 3;
        $p.should_increment_offset = true;
        core::mem::forget(__st);
    };
}

/// got == the retained messages with offsets lo..=hi (in order), nothing else
fn is_exact_run(got: &Vec<Arc<RetainedMessage>>, lo: u64, hi: u64) -> bool {
    if hi < lo {
        return got.is_empty();
    }
    if got.len() as u64 != hi - lo + 1 {
        return false;
    }
    let mut i = 0;
    while i < got.len() {
        if got[i].offset != lo + i as u64 || got[i].id != (lo + i as u64) as u128 {
            return false;
        }
        i += 1;
    }
    true
}

macro_rules! poll_harness {
    ($(#[$m:meta])* fn $name:ident() $body:block) => {
        harness_sync! {
            #[kani::stub(crate::verif::sync::streaming::segments::segment::Segment::get_messages_by_offset, crate::verif::c02_partition_poll::segment_read_summary)]
            #[kani::unwind(8)]
            $(#[$m])*
            fn $name() $body
        }
    };
}

// by offset: exactly the retained messages in [o, o+n-1]
fn by_offset(n: u32) {
    two_segment_partition!(p, e);
    let o: u64 = kani::any();
    kani::assume(o < OFF_MAX + 10);
    let got = p.get_messages_by_offset(o, n).unwrap();
    let cur = e + 3;
    if o >= e {
        // the whole requested range is at or above the earliest retained message
        let hi = if o + (n as u64 - 1) > cur { cur } else { o + (n as u64 - 1) };
        assert!(is_exact_run(&got, o, hi), "poll by offset did not return exactly the retained messages of the requested range");
    } else {
        // reaching below the earliest retained offset: starts from the earliest message still available
        if !got.is_empty() {
            assert!(got[0].offset == e, "a poll below the earliest retained offset did not start at the earliest available message");
            assert!(is_exact_run(&got, e, e + got.len() as u64 - 1));
            assert!(got.len() as u32 <= n);
        }
    }
    kani::cover!(o == e + 1, "range starts in the first segment, one before the boundary");
    kani::cover!(o < e, "below the earliest retained offset");
    core::mem::forget(got);
    core::mem::forget(p);
}
// (count is concrete per harness: the repository allocates `Vec::with_capacity(count)`, and a symbolic
// allocation size sends CBMC out of memory)
poll_harness! { fn c02_poll_by_offset_count_1_t() { by_offset(1) } }
poll_harness! { fn c02_poll_by_offset_count_3_t() { by_offset(3) } }
poll_harness! { fn c02_poll_by_offset_count_5_t() { by_offset(5) } }

// last n: the n newest messages
fn last(n: u32) {
    two_segment_partition!(p, e);
    let got = p.get_last_messages(n).unwrap();
    let cur = e + 3;
    let want = if n as u64 > 4 { 4 } else { n as u64 }; // four messages are retained
    if e + 4 >= n as u64 || true {
        // the newest `want` messages, in order (when the log still starts at 0 this is all there is)
        let lo = cur + 1 - if (n as u64) > cur + 1 { cur + 1 } else { n as u64 };
        if lo >= e {
            assert!(is_exact_run(&got, lo, cur), "last-n poll did not return the newest messages");
        } else {
            assert!(!got.is_empty() && got[got.len() - 1].offset == cur && got.len() as u64 <= want.max(n as u64));
        }
    }
    kani::cover!(e > 5, "log does not start at 0");
    core::mem::forget(got);
    core::mem::forget(p);
}
poll_harness! { fn c02_poll_last_3_t() { last(3) } }
poll_harness! { fn c02_poll_last_6_t() { last(6) } }

// next: right after the stored offset; nothing when the consumer is up to date
fn next(n: u32) {
    two_segment_partition!(p, e);
    let stored: u64 = kani::any();
    let cur = e + 3;
    kani::assume(stored >= e && stored <= cur);
    let c = PollingConsumer::Consumer(5, 1);
    p.consumer_offsets.insert(5, consumer_offset_new_stub(iggy::consumer::ConsumerKind::Consumer, 5, stored, "x"));
    let got = p.get_next_messages(c, n).unwrap();
    if stored == cur {
        assert!(got.is_empty());
    } else {
        let hi = if stored + n as u64 > cur { cur } else { stored + n as u64 };
        assert!(is_exact_run(&got, stored + 1, hi), "next poll did not return the messages right after the stored offset");
    }
    kani::cover!(stored == e + 1, "next batch starts in the second segment");
    core::mem::forget(got);
    core::mem::forget(p);
}
poll_harness! { fn c02_poll_next_2_t() { next(2) } }
poll_harness! { fn c02_poll_next_5_t() { next(5) } }

// first n: the n oldest RETAINED messages - also after retention removed the beginning of the log
fn first(n: u32) {
    two_segment_partition!(p, e);
    let got = p.get_first_messages(n).unwrap();
    let cur = e + 3;
    let hi = if e + (n as u64 - 1) > cur { cur } else { e + (n as u64 - 1) };
    assert!(is_exact_run(&got, e, hi), "first-n poll did not return the oldest retained messages");
    kani::cover!(e > 10, "retention has removed the beginning of the log");
    core::mem::forget(got);
    core::mem::forget(p);
}
poll_harness! { fn c02_poll_first_2_t() { first(2) } }
poll_harness! { fn c02_poll_first_5_t() { first(5) } }
