//! @property C04
//! @enc SegmentLogReader::{new, load_batches_by_range_with_callback, load_batches_by_range_impl (thorough), read_next_batch, file_size} (de-asynced twin) on the model file system
//! @bounds one log file holding two or three stored batches (24-byte header + 8 payload bytes each; base offset, last-offset delta, max timestamp and all payload bytes symbolic; the length field is what the writer wrote: 8); the surviving / published size is ANY value in [0, 32*k] - every torn length of every record, header or payload; the reader starts at position 0 with the unbounded index range
//! @stub SegmentLogReader::read_at -> same contract (len bytes of the file at offset, short file = error) with the buffer in a typed static arena instead of a heap Vec (hooks/log_reader.rs)
//! @model tokio::fs / std::fs -> model FS (384-byte files); spawn_blocking -> inline call
//! @assume the length field of a record whose header survived completely is the one that was written (a torn write is a prefix of the intended bytes)
//! @out index file, consumer-offset file and state-log tails; segment / partition load (`load_from_disk`, `storage::load`) - not encodable within reach (DESIGN.md 0.3); payloads longer than 8 bytes; more than three records
//! C04-H2 (log tail): a partially written trailing record is ignored - never served as data, never a
//! panic - and everything before it is served unchanged; the reader never looks past the size it was
//! given even when the file already holds more bytes.
use crate::verif::sync::streaming::segments::verif_hook::{IndexRange, SegmentLogReader};
use iggy::verif_model::fs_sync as mfs;
use std::sync::atomic::{AtomicU64, Ordering};
use std::sync::Arc;

macro_rules! tail_harness {
    ($(#[$m:meta])* fn $name:ident() $body:block) => {
        harness_sync! {
            #[kani::stub(crate::verif::sync::streaming::segments::logs::log_reader::SegmentLogReader::read_at, crate::verif::sync::streaming::segments::logs::log_reader::verif_hook::read_at_stub)]
            $(#[$m])*
            fn $name() $body
        }
    };
}

const REC: usize = 32;
const PATH: &str = "/l/0.log";

struct Rec {
    base: u64,
    delta: u32,
    ts: u64,
    payload: [u8; 8],
}

fn any_rec() -> Rec {
    Rec { base: kani::any(), delta: kani::any(), ts: kani::any(), payload: kani::any() }
}

fn put(idx: usize, at: usize, r: &Rec) {
    let mut b = [0u8; REC];
    b[0..8].copy_from_slice(&r.base.to_le_bytes());
    b[8..12].copy_from_slice(&8u32.to_le_bytes());
    b[12..16].copy_from_slice(&r.delta.to_le_bytes());
    b[16..24].copy_from_slice(&r.ts.to_le_bytes());
    b[24..32].copy_from_slice(&r.payload);
    mfs::fs().write_at(idx, at, &b).unwrap();
}

fn served_is(b: &crate::verif::sync::streaming::batching::message_batch::RetainedMessageBatch, r: &Rec) -> bool {
    b.base_offset == r.base
        && b.last_offset_delta == r.delta
        && b.max_timestamp == r.ts
        && b.bytes.len() == 8
        && b.bytes[0] == r.payload[0] && b.bytes[1] == r.payload[1] && b.bytes[2] == r.payload[2] && b.bytes[3] == r.payload[3]
        && b.bytes[4] == r.payload[4] && b.bytes[5] == r.payload[5] && b.bytes[6] == r.payload[6] && b.bytes[7] == r.payload[7]
}

/// `after_crash`: the file itself is cut at the symbolic length (restart after a crash in the middle of
/// a write: the reader takes the size from the file's metadata).
/// `!after_crash`: the file holds all k records but the size handed to the reader is the symbolic value
/// (a writer that has written but not yet published; the reader must trust the size, not the file).
fn tail(k: usize, after_crash: bool, via_callback: bool) {
    mfs::strict(true); // no I/O error is injected: a read past the end of the file is a failure
    let idx = mfs::fs().create(PATH).unwrap();
    let r0 = any_rec();
    let r1 = any_rec();
    let r2 = any_rec();
    // last offsets stay below the end of the unbounded range, as stored offsets do
    kani::assume(r0.base < (1 << 30) && r1.base < (1 << 30) && r2.base < (1 << 30));
    kani::assume(r0.delta < (1 << 30) && r1.delta < (1 << 30) && r2.delta < (1 << 30));
    put(idx, 0, &r0);
    put(idx, REC, &r1);
    if k == 3 {
        put(idx, 2 * REC, &r2);
    }
    let s: usize = kani::any();
    kani::assume(s <= k * REC);
    let size = Arc::new(AtomicU64::new(0));
    // the real constructor publishes the size it finds on disk ...
    if after_crash {
        mfs::fs().files[idx].len = s;
    }
    let opened = SegmentLogReader::new(PATH, size.clone()).unwrap();
    assert!(size.load(Ordering::Acquire) == if after_crash { s as u64 } else { (k * REC) as u64 }, "the reader starts from the size of the file on disk");
    core::mem::forget(opened);
    if !after_crash {
        size.store(s as u64, Ordering::Release);
    }
    // ... and the scan runs on a reader with the same three fields whose file handle is typed (hooks/log_reader.rs)
    let inner = core::mem::ManuallyDrop::new(crate::verif::TypedArcInner {
        strong: core::sync::atomic::AtomicUsize::new(2),
        weak: core::sync::atomic::AtomicUsize::new(1),
        data: SegmentLogReader::verif_open_for_read(PATH),
    });
    let reader = SegmentLogReader::verif_over(&inner, PATH, size.clone());
    let complete = s / REC;
    if via_callback {
        // the restart path (`load_from_disk` -> `load_message_batches` style scan): batches are handed to a callback
        let mut n = 0usize;
        let mut ok = [false; 3];
        let r = reader.load_batches_by_range_with_callback(&IndexRange::max_range(), |b| {
            if n < 3 {
                ok[n] = served_is(&b, if n == 0 { &r0 } else if n == 1 { &r1 } else { &r2 });
            }
            n += 1;
            core::mem::forget(b);
            Ok(())
        });
        assert!(r.is_ok(), "a torn tail must not be an error that stops the restart");
        assert!(n == complete, "exactly the completely stored records are served");
        assert!(complete < 1 || ok[0], "a complete record before the torn tail is served unchanged");
        assert!(complete < 2 || ok[1], "a complete record before the torn tail is served unchanged");
        assert!(complete < 3 || ok[2], "a complete record before the torn tail is served unchanged");
    } else {
        let got = reader.load_batches_by_range_impl(&IndexRange::max_range());
        assert!(got.is_ok(), "a torn tail must not be an error that stops the restart");
        let got = got.unwrap();
        assert!(got.len() == complete, "exactly the completely stored records are served");
        if complete >= 1 {
            assert!(served_is(&got[0], &r0), "a complete record before the torn tail is served unchanged");
        }
        if complete >= 2 {
            assert!(served_is(&got[1], &r1), "a complete record before the torn tail is served unchanged");
        }
        if complete >= 3 {
            assert!(served_is(&got[2], &r2), "a complete record before the torn tail is served unchanged");
        }
        core::mem::forget(got);
    }
    kani::cover!(s % REC != 0 && s % REC < 24 && complete == 1, "torn inside a header");
    kani::cover!(s % REC >= 24 && complete == 1, "torn inside a payload");
    kani::cover!(s == k * REC, "nothing torn");
    core::mem::forget(reader);
}

tail_harness! { #[kani::unwind(4)] fn c04_log_tail_after_crash_k2() { tail(2, true, true) } }
tail_harness! { #[kani::unwind(4)] fn c04_log_tail_published_size_k2() { tail(2, false, true) } }
tail_harness! { #[kani::unwind(5)] fn c04_log_tail_after_crash_k3_t() { tail(3, true, true) } }
tail_harness! { #[kani::unwind(5)] fn c04_log_tail_published_size_k3_t() { tail(3, false, true) } }
tail_harness! { #[kani::unwind(4)] fn c04_log_tail_range_read_after_crash_k2_t() { tail(2, true, false) } }
tail_harness! { #[kani::unwind(4)] fn c04_log_tail_range_read_published_size_k2_t() { tail(2, false, false) } }
