//! @property C06
//! @enc Topic::{create_consumer_group, delete_consumer_group, get_consumer_group, get_consumer_group_by_id, get_consumer_group_by_name, try_get_consumer_group, get_consumer_groups} (de-asynced twins)
//! @bounds consumer-group scope only: histories of <= 4 commands over {create with server-assigned id, create with a SYMBOLIC client id, duplicate name, delete}; names from a concrete pool; topic without partitions (so no stored offsets to cascade)
//! @model AHashMap -> fixed array map (capacity 4); tokio RwLock -> single-task lock
//! @out streams, topics, partitions, users (need System / directory I/O); cascades on disk; client memberships (ClientManager); both transports
use super::su::*;
use super::util::system_config;
use crate::verif::sync::streaming::topics::topic::Topic;
use iggy::error::IggyError;
use iggy::identifier::Identifier;
use iggy::utils::expiry::IggyExpiry;
use iggy::utils::topic_size::MaxTopicSize;

macro_rules! empty_topic {
    ($t:ident) => {
        typed_arc!(__cfg: crate::configs::system::SystemConfig = system_config());
        let __st = storage(&__cfg);
        let __c = counters();
        let mut $t = new_topic(&__cfg, &__st, &__c, MaxTopicSize::Unlimited, IggyExpiry::NeverExpire);
        core::mem::forget(__st);
    };
}

fn id_of(t: &Topic, name: &str) -> Option<u32> {
    match t.get_consumer_group_by_name(name) {
        Ok(g) => Some(g.read().group_id),
        Err(_) => None,
    }
}
fn name_ok(t: &Topic, id: u32, name: &str) -> bool {
    match t.get_consumer_group_by_id(id) {
        Ok(g) => {
            let g = g.read();
            g.group_id == id && g.name.as_str() == name
        }
        Err(_) => false,
    }
}

// ids and names are unique, lookup by name and by id agree, a failed create changes nothing
harness_sync! { #[kani::unwind(6)] fn c06_groups_unique_ids_and_names() {
    empty_topic!(t);
    let a = t.create_consumer_group(None, "a").unwrap().read().group_id;
    assert!(a == 1);
    let g: u32 = kani::any(); // id proposed by the client for the second group
    let r = t.create_consumer_group(Some(g), "b").map(|x| x.read().group_id);
    if g == a {
        assert!(matches!(r, Err(IggyError::ConsumerGroupIdAlreadyExists(_, _))), "a second group got an id that is already taken");
        assert!(t.consumer_groups.len() == 1 && id_of(&t, "b").is_none(), "a failed create changed the catalogue");
    } else {
        assert!(r == Ok(g));
        assert!(t.consumer_groups.len() == 2);
        assert!(id_of(&t, "b") == Some(g) && name_ok(&t, g, "b"));
    }
    assert!(id_of(&t, "a") == Some(a) && name_ok(&t, a, "a"), "creating a sibling disturbed an existing group");
    // duplicate name
    let before = t.consumer_groups.len();
    let d = t.create_consumer_group(None, "a").map(|x| x.read().group_id);
    assert!(matches!(d, Err(IggyError::ConsumerGroupNameAlreadyExists(_, _))));
    assert!(t.consumer_groups.len() == before);
    assert!(id_of(&t, "a") == Some(a));
    kani::cover!(g == a, "client proposes a taken id");
    kani::cover!(g != a, "client proposes a free id");
    core::mem::forget(t);
} }

// delete removes exactly the named group; a later server-assigned id never collides with a live one
harness_sync! { #[kani::unwind(6)] fn c06_group_delete_and_id_reuse() {
    empty_topic!(t);
    let a = t.create_consumer_group(None, "a").unwrap().read().group_id;
    let b = t.create_consumer_group(None, "b").unwrap().read().group_id;
    assert!(a != b);
    let by_name: bool = kani::any();
    let victim_is_a: bool = kani::any();
    let (vid, vname, sid, sname) = if victim_is_a { (a, "a", b, "b") } else { (b, "b", a, "a") };
    let ident = if by_name { Identifier::named(vname).unwrap() } else { Identifier::numeric(vid).unwrap() };
    let removed = t.delete_consumer_group(&ident).unwrap();
    assert!(removed.read().group_id == vid);
    assert!(id_of(&t, vname).is_none() && t.get_consumer_group_by_id(vid).is_err(), "deleted group still visible");
    assert!(id_of(&t, sname) == Some(sid) && name_ok(&t, sid, sname), "deleting a group disturbed its sibling");
    assert!(t.consumer_groups.len() == 1);
    // deleting it again fails and changes nothing
    assert!(t.delete_consumer_group(&ident).is_err());
    assert!(t.consumer_groups.len() == 1);
    // a new group gets an id that no live group has, and is found under its name
    let c = t.create_consumer_group(None, "c").unwrap().read().group_id;
    assert!(c != sid, "server-assigned id collides with a live group");
    assert!(id_of(&t, "c") == Some(c) && name_ok(&t, c, "c"));
    assert!(id_of(&t, sname) == Some(sid));
    kani::cover!(by_name && victim_is_a, "delete first group by name");
    kani::cover!(!by_name && !victim_is_a, "delete second group by id");
    core::mem::forget(removed);
    core::mem::forget(t);
} }
