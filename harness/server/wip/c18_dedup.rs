//! @property C18
//! @enc Partition::append_messages (deduplication branch, de-asynced twin), MessageDeduplicator::{try_insert, exists, insert}, Segment::append_batch
//! @bounds one batch of 2 or 3 messages whose ids follow every equality pattern among themselves and with one id stored by an earlier batch (patterns enumerated as concrete shapes: ids are only compared for equality); symbolic pre-state as in C01 (current offset < 2^40)
//! @model moka::future::Cache -> fixed-capacity set WITHOUT eviction (the property's regime: within the configured id capacity and time-to-live)
//! @stub Segment::persist_messages, Partition::add_persisted_segment -> cut; Segment::is_full -> open-segment summary
//! @out capacity / TTL eviction (moka internals); reload of ids after restart (log scan) - thorough tier when tractable
use super::su::*;
use super::util::system_config;
use iggy::utils::byte_size::IggyByteSize;
use std::sync::atomic::Ordering;
use std::sync::Arc;

const OFF_MAX: u64 = 1 << 40;

fn dedup_step(n: usize, ids: [u128; 3]) {
    let mut sc = system_config();
    sc.message_deduplication.enabled = true;
    sc.message_deduplication.max_entries = 0; // unlimited
    typed_arc!(cfg: crate::configs::system::SystemConfig = sc);
    let st = storage(&cfg);
    let c = counters();
    let mut p = new_partition(&cfg, &st, &c, true, false);
    typed_segments!(p);
    assert!(p.message_deduplicator.is_some());

    // pre-state: the partition already holds offsets ..=cur, and id `seen` was stored earlier
    let cur: u64 = kani::any();
    kani::assume(cur < OFF_MAX);
    p.should_increment_offset = true;
    p.current_offset = cur;
    {
        let seg = p.segments.last_mut().unwrap();
        seg.current_offset = cur;
        seg.size_bytes = IggyByteSize::from(100u64);
    }
    let seen: u128 = 9;
    assert!(p.message_deduplicator.as_ref().unwrap().try_insert(&seen));

    let r = if n == 2 {
        typed_msg_vec!(msgs, message(ids[0], vec![0]), message(ids[1], vec![1]));
        let info = batch_info(&msgs);
        p.append_messages(info, msgs, None)
    } else {
        typed_msg_vec!(msgs, message(ids[0], vec![0]), message(ids[1], vec![1]), message(ids[2], vec![2]));
        let info = batch_info(&msgs);
        p.append_messages(info, msgs, None)
    };
    assert!(r.is_ok());

    // oracle: message i is kept iff its id differs from `seen` and from every earlier id of the batch
    let mut keep = [false; 3];
    let mut kept = 0usize;
    let mut i = 0;
    while i < n {
        let mut dup = ids[i] == seen;
        let mut j = 0;
        while j < i {
            if ids[j] == ids[i] { dup = true; }
            j += 1;
        }
        keep[i] = !dup;
        if !dup { kept += 1; }
        i += 1;
    }
    assert!(p.current_offset == cur + kept as u64, "a dropped duplicate consumed an offset, or a distinct id was dropped");
    let seg = p.segments.last().unwrap();
    if kept == 0 {
        assert!(seg.unsaved_messages.is_none(), "an all-duplicate batch must leave the partition unchanged");
        assert!(p.messages_count.load(Ordering::SeqCst) == 0);
    } else {
        let acc = seg.unsaved_messages.as_ref().unwrap();
        let all = crate::verif::sync::streaming::batching::batch_accumulator::verif_hook::messages(acc);
        assert!(all.len() == kept);
        // the kept messages are the first occurrences, in send order, with consecutive offsets
        let mut k = 0usize;
        let mut i = 0;
        while i < n {
            if keep[i] {
                assert!(all[k].id == ids[i]);
                assert!(all[k].payload[0] == i as u8); // first occurrence (payload marks the position)
                assert!(all[k].offset == cur + 1 + k as u64);
                k += 1;
            }
            i += 1;
        }
        assert!(p.messages_count.load(Ordering::SeqCst) == kept as u64);
    }
    kani::cover!(cur > 5, "non-trivial pre-state");
    core::mem::forget(p);
    core::mem::forget(st);
    core::mem::forget(cfg);
}

macro_rules! dedup_harness {
    ($name:ident, $n:expr, $ids:expr) => {
        harness_sync! {
            #[kani::stub(crate::verif::sync::streaming::segments::segment::Segment::persist_messages, crate::verif::su::cut_persist_messages)]
            #[kani::stub(crate::verif::sync::streaming::partitions::partition::Partition::add_persisted_segment, crate::verif::su::cut_add_persisted_segment)]
            #[kani::stub(crate::verif::sync::streaming::segments::segment::Segment::is_full, crate::verif::su::summary_is_full_open)]
            #[kani::unwind(4)]
            fn $name() { dedup_step($n, $ids) }
        }
    };
}
// id 9 was stored by an earlier batch
dedup_harness!(c18_dedup_2_distinct, 2, [1, 2, 0]);
dedup_harness!(c18_dedup_2_same_in_batch, 2, [1, 1, 0]);
dedup_harness!(c18_dedup_2_first_seen_before, 2, [9, 2, 0]);
dedup_harness!(c18_dedup_2_second_seen_before, 2, [1, 9, 0]);
dedup_harness!(c18_dedup_2_all_seen_before, 2, [9, 9, 0]);
dedup_harness!(c18_dedup_3_distinct_t, 3, [1, 2, 3]);
dedup_harness!(c18_dedup_3_first_repeats_last_t, 3, [1, 2, 1]);
dedup_harness!(c18_dedup_3_middle_seen_before_t, 3, [1, 9, 2]);
dedup_harness!(c18_dedup_3_all_same_t, 3, [1, 1, 1]);
