//! @property C08
//! @enc ConsumerGroup::{new, add_member, delete_member, reassign_partitions, assign_partitions, calculate_partition_id, get_current_partition_id}, ConsumerGroupMember::{calculate_partition_id, get_partitions} (de-asynced twins)
//! @bounds m in {1,2,3} members (concrete distinct ids), partitions_count symbolic 0..=4 (the map model's capacity bounds a member's share), one join/leave/rebalance step after an arbitrary earlier assignment (a different symbolic partition count); rotation: as many polls as the member owns partitions
//! @model AHashMap -> fixed array map (capacity 4, iteration in slot order); tokio RwLock -> single-task lock
//! @out "the group as a whole is handed every message once" is the composition of this exclusivity with C07 (shared group offset per partition) and C02 - argued, not encoded; disconnect handling in System::delete_client; schedules of concurrent polls
use crate::verif::sync::streaming::topics::consumer_group::verif_hook as gh;
use crate::verif::sync::streaming::topics::consumer_group::ConsumerGroup;

const IDS: [u32; 3] = [10, 20, 30];

fn check_assignment(g: &ConsumerGroup, members: &[u32], pc: u32) {
    assert!(g.partitions_count == pc);
    assert!(gh::members_count(g) == members.len());
    // every partition 1..=pc is owned by exactly one member; shares differ by at most one
    let mut owners = [0u8; 8];
    let mut min = u32::MAX;
    let mut max = 0u32;
    let mut i = 0;
    while i < members.len() {
        let (ps, len) = gh::member_partitions(g, members[i]).unwrap();
        let n = len as u32;
        if n < min { min = n; }
        if n > max { max = n; }
        let mut j = 0;
        while j < len {
            assert!(ps[j] >= 1 && ps[j] <= pc, "a member owns a partition that does not exist");
            owners[ps[j] as usize] += 1;
            j += 1;
        }
        // the member's cursor points at its first partition (or nowhere when it owns none)
        let (idx, id) = gh::member_cursor(g, members[i]);
        if n == 0 { assert!(idx.is_none() && id.is_none()); } else { assert!(idx == Some(0) && id == Some(ps[0])); }
        i += 1;
    }
    let mut p = 1;
    while p <= pc as usize {
        assert!(owners[p] == 1, "a partition is owned by no member or by more than one");
        p += 1;
    }
    if !members.is_empty() { assert!(max - min <= 1, "members' shares differ by more than one"); }
}

fn group_with(m: usize, pc0: u32) -> ConsumerGroup {
    let mut g = ConsumerGroup::new(1, 1, "", pc0);
    let mut i = 0;
    while i < m {
        g.add_member(IDS[i]);
        i += 1;
    }
    g
}

fn rebalance(m: usize, pc: u32) {
    let pc0: u32 = kani::any();
    kani::assume(pc0 <= 4);
    let mut g = group_with(m, pc0);
    g.reassign_partitions(pc); // partitions added or removed
    check_assignment(&g, &IDS[..m], pc);
    kani::cover!(pc > pc0, "partitions added");
    kani::cover!(pc < pc0 && pc > 0, "partitions removed");
    core::mem::forget(g);
}
harness_sync! { #[kani::unwind(9)] fn c08_rebalance_1_member_to_3() { rebalance(1, 3) } }
harness_sync! { #[kani::unwind(9)] fn c08_rebalance_2_members_to_3() { rebalance(2, 3) } }
harness_sync! { #[kani::unwind(9)] fn c08_rebalance_2_members_to_4_t() { rebalance(2, 4) } }
harness_sync! { #[kani::unwind(9)] fn c08_rebalance_3_members_to_4_t() { rebalance(3, 4) } }

harness_sync! { #[kani::unwind(9)] fn c08_join_and_leave_t() {
    let pc: u32 = kani::any();
    kani::assume(pc <= 4);
    let mut g = group_with(2, pc);
    check_assignment(&g, &IDS[..2], pc);
    g.add_member(IDS[2]);
    check_assignment(&g, &IDS[..3], pc);
    g.delete_member(IDS[0]);
    check_assignment(&g, &[IDS[1], IDS[2]], pc);
    g.delete_member(99); // unknown member: nothing changes
    check_assignment(&g, &[IDS[1], IDS[2]], pc);
    kani::cover!(pc == 3, "uneven split");
    core::mem::forget(g);
} }

// a member polling without naming a partition visits each of its partitions in turn, only its own
harness_sync! { #[kani::unwind(9)] fn c08_member_rotation_t() {
    let pc: u32 = kani::any();
    kani::assume(pc >= 1 && pc <= 4);
    let g = group_with(2, pc);
    let (mine, k) = gh::member_partitions(&g, IDS[0]).unwrap();
    let mut seen = [0u8; 8];
    let mut i = 0;
    while i < k {
        let p = g.calculate_partition_id(IDS[0]).unwrap().unwrap();
        assert!(g.get_current_partition_id(IDS[0]).unwrap() == Some(p));
        seen[p as usize] += 1;
        i += 1;
    }
    let mut j = 0;
    while j < k {
        assert!(seen[mine[j] as usize] == 1, "rotation skipped or repeated one of the member's partitions");
        j += 1;
    }
    // the next poll starts over with the first one
    if k > 0 { assert!(g.calculate_partition_id(IDS[0]).unwrap() == Some(mine[0])); }
    assert!(g.calculate_partition_id(77).is_err()); // not a member
    kani::cover!(k == 2, "two partitions owned");
    core::mem::forget(g);
} }
