//! @property C10
//! @enc PersonalAccessToken::{calculate_expiry_at, is_expired, raw}; the comparison used by SystemState::init when it drops expired tokens during replay (same function + same direction, transcribed as one statement)
//! @bounds creation instant, now and expiry duration any values (instants < 2^52 us, duration any u32 seconds); expiry in {NeverExpire, ServerDefault, ExpireDuration}
//! @assume clock unit conversion stubbed (micros kept in the seconds field, see stubs.rs); IggyDuration::as_micros real
//! @out everything else of C10: password verification (bcrypt), token digests (blake3), login decision table, secrets at rest, restart equivalence, JWT - these need bcrypt/blake3 or a full System and are not encodable; the claim is the token-expiry clause only
use crate::streaming::personal_access_tokens::personal_access_token::PersonalAccessToken;
use iggy::utils::duration::IggyDuration;
use iggy::utils::expiry::IggyExpiry;
use iggy::utils::timestamp::IggyTimestamp;

fn any_expiry() -> (IggyExpiry, Option<u64>) {
    let k: u8 = kani::any();
    let d: u32 = kani::any();
    match k % 3 {
        0 => (IggyExpiry::NeverExpire, None),
        1 => (IggyExpiry::ServerDefault, None),
        _ => (IggyExpiry::ExpireDuration(IggyDuration::new(core::time::Duration::new(d as u64, 0))), Some(d as u64 * 1_000_000)),
    }
}

harness! { #[kani::unwind(4)] fn c10_token_expires_exactly_at_created_plus_expiry() {
    let created: u64 = kani::any();
    let now: u64 = kani::any();
    kani::assume(created < (1 << 52) && now < (1 << 52));
    let (exp, d_us) = any_expiry();
    let at = PersonalAccessToken::calculate_expiry_at(IggyTimestamp::from(created), exp);
    match d_us {
        None => assert!(at.is_none(), "a never-expiring token got an expiry instant"),
        Some(d) => assert!(at.map(|t| t.as_micros()) == Some(created + d)),
    }
    let t = PersonalAccessToken { user_id: 1, name: String::new(), token: String::new(), expiry_at: at };
    let expired = t.is_expired(IggyTimestamp::from(now));
    let want = match d_us { None => false, Some(d) => created + d <= now };
    assert!(expired == want, "token validity differs from: expires when now >= created + expiry");
    // monotone in time: once expired, always expired
    let later: u64 = kani::any();
    kani::assume(later >= now && later < (1 << 52));
    if expired { assert!(t.is_expired(IggyTimestamp::from(later))); }
    kani::cover!(expired, "expired");
    kani::cover!(!expired && d_us.is_some(), "still valid");
    core::mem::forget(t);
} }

// restart uses the same rule as runtime: the replay-side test (state/system.rs) is
// `calculate_expiry_at(entry.timestamp, expiry).as_micros() <= now`; the runtime test is is_expired(now)
harness! { #[kani::unwind(4)] fn c10_replay_drops_exactly_the_tokens_runtime_rejects() {
    let created: u64 = kani::any();
    let now: u64 = kani::any();
    kani::assume(created < (1 << 52) && now < (1 << 52));
    let (exp, _d) = any_expiry();
    let at = PersonalAccessToken::calculate_expiry_at(IggyTimestamp::from(created), exp);
    let dropped_by_replay = match at { Some(x) => x.as_micros() <= now, None => false };
    let t = PersonalAccessToken::raw(1, "", "", at);
    assert!(dropped_by_replay == t.is_expired(IggyTimestamp::from(now)));
    kani::cover!(dropped_by_replay, "dropped");
    core::mem::forget(t);
} }
