//! @property C02
//! @enc BatchAccumulator::{new,append,get_messages_by_offset,get_messages_by_timestamp,batch_base_offset,batch_max_offset,batch_max_timestamp,unsaved_messages_count}
//! @bounds k in {1,2,3} buffered messages in 1..2 appended batches; base offset < 2^40; timestamps non-decreasing < 2^52; count <= 5
//! @assume start <= end for by-offset reads (established by the only caller, Segment::get_messages_by_offset)
//! C02-H1: the not-yet-saved buffer returns exactly the requested slice.
//! enc: BatchAccumulator::{new, append, get_messages_by_offset, get_messages_by_timestamp,
//!      batch_base_offset, batch_max_offset, batch_max_timestamp, unsaved_messages_count}
use super::util::*;
use crate::streaming::batching::batch_accumulator::BatchAccumulator;
use iggy::utils::byte_size::IggyByteSize;

const OFF_MAX: u64 = 1 << 40;

fn build(k: usize, split: usize) -> (BatchAccumulator, u64, [u64; 3]) {
    let base: u64 = kani::any();
    kani::assume(base < OFF_MAX);
    let mut ts = [0u64; 3];
    let mut prev = 0u64;
    let mut i = 0;
    while i < k {
        let t: u64 = kani::any();
        kani::assume(t >= prev && t < (1 << 52));
        ts[i] = t;
        prev = t;
        i += 1;
    }
    let mut acc = BatchAccumulator::new(base, 8);
    // messages arrive in one or two appended batches: [0,split) and [split,k)
    let mut first = Vec::new();
    let mut second = Vec::new();
    let mut i = 0;
    while i < k {
        let m = retained(base + i as u64, ts[i], i as u128 + 1, vec![i as u8]);
        if i < split { first.push(m) } else { second.push(m) }
        i += 1;
    }
    if !first.is_empty() {
        acc.append(IggyByteSize::from(10u64), &first);
    }
    if !second.is_empty() {
        acc.append(IggyByteSize::from(10u64), &second);
    }
    (acc, base, ts)
}

fn by_offset(k: usize, split: usize) {
    let (acc, base, _ts) = build(k, split);
    assert!(acc.batch_base_offset() == base);
    assert!(acc.batch_max_offset() == base + k as u64 - 1);
    assert!(acc.unsaved_messages_count() == k);
    let start: u64 = kani::any();
    let end: u64 = kani::any();
    // precondition established by the only caller (Segment::get_messages_by_offset):
    // end = start + count - 1 with count >= 1
    kani::assume(start <= end);
    let got = acc.get_messages_by_offset(start, end);
    // oracle: messages with start <= offset <= end, ascending
    let mut expect = 0usize;
    let mut i = 0;
    while i < k {
        let o = base + i as u64;
        if o >= start && o <= end {
            assert!(expect < got.len());
            assert!(got[expect].offset == o);
            assert!(got[expect].id == i as u128 + 1);
            expect += 1;
        }
        i += 1;
    }
    assert!(got.len() == expect);
    kani::cover!(got.len() == k, "whole buffer returned");
    kani::cover!(got.len() == 0, "empty result");
    kani::cover!(got.len() > 0 && got.len() < k || k == 1, "strict sub-slice");
    core::mem::forget(got);
    core::mem::forget(acc);
}

fn by_timestamp(k: usize, split: usize) {
    let (acc, base, ts) = build(k, split);
    assert!(acc.batch_max_timestamp() == ts[k - 1]);
    let t: u64 = kani::any();
    let count: usize = kani::any();
    kani::assume(count <= 5);
    let got = acc.get_messages_by_timestamp(t, count);
    // oracle: the first `count` messages whose timestamp >= t
    let mut expect = 0usize;
    let mut i = 0;
    while i < k {
        if ts[i] >= t && expect < count {
            assert!(expect < got.len());
            assert!(got[expect].offset == base + i as u64);
            expect += 1;
        }
        i += 1;
    }
    assert!(got.len() == expect);
    kani::cover!(got.len() == k, "all by timestamp");
    kani::cover!(got.len() < k && got.len() > 0 || k == 1, "some by timestamp");
    core::mem::forget(got);
    core::mem::forget(acc);
}

harness! { #[kani::unwind(5)] fn c02_acc_offset_k1() { by_offset(1, 1) } }
harness! { #[kani::unwind(5)] fn c02_acc_offset_k2() { by_offset(2, 1) } }
harness! { #[kani::unwind(5)] fn c02_acc_offset_k3_t() { by_offset(3, 2) } }
harness! { #[kani::unwind(5)] fn c02_acc_offset_k3_one_batch() { by_offset(3, 3) } }
harness! { #[kani::unwind(5)] fn c02_acc_ts_k1() { by_timestamp(1, 1) } }
harness! { #[kani::unwind(5)] fn c02_acc_ts_k2() { by_timestamp(2, 1) } }
harness! { #[kani::unwind(5)] fn c02_acc_ts_k3_t() { by_timestamp(3, 1) } }
