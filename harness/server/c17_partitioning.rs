//! @property C17
//! @enc Topic::calculate_partition_id_by_messages_key_hash, Topic::get_next_partition_id, Topic::get_partitions_count, Topic::has_partitions, Topic::append_messages (partitioning-kind dispatch up to the partition lookup), utils::hash::calculate_32 (XxHash32::oneshot)
//! @bounds partitions_count any u32 >= 1 (map length made symbolic through the model's length knob); key hash any u32; round-robin cursor any u32; explicit partition id any u32, value length any u8 <= 8; real xxhash32 on keys of <= 4 bytes with 3 partitions
//! @model AHashMap -> fixed array map (only len()/get() are used here)
//! @out spread under concurrent senders (atomic cursor races)
use super::su::*;
use super::util::system_config;
use crate::verif::sync::streaming::topics::messages::verif_hook as th;
use iggy::error::IggyError;
use iggy::messages::send_messages::{Partitioning, PartitioningKind};
use iggy::utils::byte_size::IggyByteSize;
use iggy::utils::expiry::IggyExpiry;
use iggy::utils::topic_size::MaxTopicSize;
use std::sync::atomic::Ordering;
use std::sync::Arc;

pub fn any_hash_stub(_data: &[u8]) -> u32 {
    kani::any()
}

macro_rules! topic_with_count {
    ($t:ident, $count:expr) => {
        typed_arc!(__cfg: crate::configs::system::SystemConfig = system_config());
        let __st = storage(&__cfg);
        let __c = counters();
        let mut $t = new_topic(&__cfg, &__st, &__c, MaxTopicSize::Unlimited, IggyExpiry::NeverExpire);
        $t.partitions.verif_set_len_override(Some($count as usize));
        core::mem::forget(__st);
    };
}

// H1: for EVERY hash value and every partition count >= 1 the chosen id is an existing partition
harness_sync! {
  #[kani::stub(crate::verif::sync::streaming::utils::hash::calculate_32, crate::verif::c17_partitioning::any_hash_stub)]
  fn c17_key_hash_in_range() {
    let count: u32 = kani::any();
    kani::assume(count >= 1);
    topic_with_count!(t, count);
    let id = th::partition_id_by_key(&t, &[1, 2, 3]);
    assert!(id >= 1 && id <= count);
    kani::cover!(id == count && count > 1, "hash multiple of count maps to the last partition");
    core::mem::forget(t);
} }

// H2: same key, same count => same partition (real xxhash32, keys up to 4 bytes)
harness_sync! { #[kani::unwind(6)] fn c17_key_hash_deterministic_t() {
    let count: u32 = 3;
    topic_with_count!(t, count);
    let len: usize = kani::any();
    kani::assume(len >= 1 && len <= 4);
    let key: [u8; 4] = kani::any();
    let a = th::partition_id_by_key(&t, &key[..len]);
    let b = th::partition_id_by_key(&t, &key[..len]);
    assert!(a == b);
    assert!(a >= 1 && a <= count);
    // and it is the documented function of the key: xxhash32(seed 0) mod count, 0 -> count
    let h = crate::verif::sync::streaming::utils::hash::calculate_32(&key[..len]);
    let expect = if h % count == 0 { count } else { h % count };
    assert!(a == expect);
    kani::cover!(a != 1, "not always the first partition");
    core::mem::forget(t);
} }

// H3: round robin from an arbitrary cursor (also a stale one after partitions were removed)
harness_sync! { fn c17_round_robin_in_range() {
    let count: u32 = kani::any();
    kani::assume(count >= 1);
    topic_with_count!(t, count);
    let cursor: u32 = kani::any();
    kani::assume(cursor >= 1 && cursor < u32::MAX);
    t.current_partition_id.store(cursor, Ordering::SeqCst);
    let id = th::next_partition_id(&t);
    assert!(id >= 1 && id <= count);
    // valid cursor: returns it and advances; the id after the last one is the first
    if cursor <= count {
        assert!(id == cursor);
        let id2 = th::next_partition_id(&t);
        assert!(id2 == if cursor == count { 1 } else { cursor + 1 });
    } else {
        assert!(id == 1);
    }
    kani::cover!(cursor > count, "stale cursor");
    core::mem::forget(t);
} }

// H3b: `count` consecutive balanced sends visit every partition exactly once (count = 3)
harness_sync! { #[kani::unwind(5)] fn c17_round_robin_visits_all_3() {
    topic_with_count!(t, 3u32);
    let cursor: u32 = kani::any();
    kani::assume(cursor >= 1 && cursor <= 3);
    t.current_partition_id.store(cursor, Ordering::SeqCst);
    let mut seen = [0u8; 4];
    let mut i = 0;
    while i < 3 {
        let id = th::next_partition_id(&t);
        assert!(id >= 1 && id <= 3);
        seen[id as usize] += 1;
        i += 1;
    }
    assert!(seen[1] == 1 && seen[2] == 1 && seen[3] == 1);
    kani::cover!(cursor == 3, "wrap inside the run");
    core::mem::forget(t);
} }

// H4: explicit partition id: malformed value -> error, unknown id -> PartitionNotFound; nothing stored
harness_sync! {
  #[kani::stub(crate::verif::sync::streaming::partitions::partition::Partition::append_messages, crate::verif::su::cut_partition_append)]
  #[kani::unwind(6)] fn c17_explicit_id_dispatch() {
    topic_with_count!(t, 2u32); // two partitions reported, none actually present in the map
    let pid: u32 = kani::any();
    let length: u8 = kani::any();
    kani::assume(length <= 8);
    let mut value = pid.to_le_bytes().to_vec();
    value.extend_from_slice(&[0, 0, 0, 0]);
    let p = Partitioning { kind: PartitioningKind::PartitionId, length, value };
    typed_msg_vec!(msgs, message(1, vec![0]));
    let r = t.append_messages(IggyByteSize::from(42u64), p, msgs, None);
    match r {
        Ok(()) => assert!(false, "send to a partition that does not exist was accepted"),
        Err(IggyError::InvalidNumberEncoding) => assert!(length != 4),
        Err(IggyError::PartitionNotFound(id, _, _)) => {
            assert!(length == 4);
            assert!(id == pid); // the id named by the client, no other
        }
        Err(_) => assert!(false, "unexpected error kind"),
    }
    assert!(t.get_messages_count() == 0);
    kani::cover!(length == 4, "well-formed id");
    kani::cover!(length != 4, "malformed id");
    core::mem::forget(t);
} }
