//! Kani proof harnesses for the `server` crate. Included from `/repo/server/src/lib.rs` under
//! `#[cfg(kani)]` only (hook recorded in MANIFEST.hooks). Nothing here is compiled by the
//! ordinary build or by the repository's test suite.
#![allow(dead_code, unused_imports, unused_macros, clippy::all)]

pub mod stubs;

/// Standard harness wrapper: `#[kani::proof]` plus the environment stubs of DESIGN.md §2.3.
/// Extra attributes (unwind, additional stubs) are passed through.
macro_rules! harness {
    ($(#[$m:meta])* fn $name:ident() $body:block) => {
        #[kani::proof]
        #[kani::stub(alloc::fmt::format, crate::verif::stubs::format_switch_stub)]
        #[kani::stub(tracing::callsite::DefaultCallsite::register, crate::verif::stubs::callsite_register_stub)]
        #[kani::stub(tracing::__macro_support::__is_enabled, crate::verif::stubs::is_enabled_stub)]
        #[kani::stub(tracing::Event::dispatch, crate::verif::stubs::event_dispatch_stub)]
        #[kani::stub(tracing::log::max_level, crate::verif::stubs::log_max_level_stub)]
        #[kani::stub(tracing::__macro_support::__tracing_log, crate::verif::stubs::tracing_log_stub)]
        #[kani::stub(iggy::utils::timestamp::IggyTimestamp::as_micros, crate::verif::stubs::ts_as_micros_stub)]
        #[kani::stub(<iggy::utils::timestamp::IggyTimestamp as core::convert::From<u64>>::from, crate::verif::stubs::ts_from_stub)]
        #[kani::stub(ahash::RandomState::new, crate::verif::stubs::random_state_stub)]
        #[kani::stub(std::thread::available_parallelism, crate::verif::stubs::available_parallelism_stub)]
        #[kani::stub(bytes::BytesMut::freeze, crate::verif::stubs::freeze_stub)]
        #[kani::stub(crate::configs::system::SystemConfig::get_partition_path, crate::verif::stubs::partition_path_stub)]
        #[kani::stub(crate::configs::system::SystemConfig::get_offsets_path, crate::verif::stubs::offsets_path_stub)]
        #[kani::stub(crate::configs::system::SystemConfig::get_consumer_offsets_path, crate::verif::stubs::consumer_offsets_path_stub)]
        #[kani::stub(crate::configs::system::SystemConfig::get_consumer_group_offsets_path, crate::verif::stubs::consumer_group_offsets_path_stub)]
        #[kani::stub(crate::configs::system::SystemConfig::get_segment_path, crate::verif::stubs::segment_path_stub)]
        #[kani::stub(crate::streaming::segments::segment::Segment::get_log_path, crate::verif::stubs::log_path_stub)]
        #[kani::stub(crate::streaming::segments::segment::Segment::get_index_path, crate::verif::stubs::index_path_stub)]
        #[kani::stub(crate::streaming::partitions::partition::ConsumerOffset::new, crate::verif::stubs::consumer_offset_new_stub)]
        #[kani::stub(crate::streaming::cache::memory_tracker::CacheMemoryTracker::initialize, crate::streaming::cache::memory_tracker::verif_hook::initialize_stub)]
        #[kani::stub(crate::streaming::cache::memory_tracker::CacheMemoryTracker::get_instance, crate::streaming::cache::memory_tracker::verif_hook::get_instance_stub)]
        #[kani::stub(std::path::Path::exists, crate::verif::stubs::path_exists_stub)]
        $(#[$m])*
        pub fn $name() $body
    };
}

/// Harness on the streaming path: cheap checksum, no user headers (see stubs.rs).
macro_rules! harness_stream {
    ($(#[$m:meta])* fn $name:ident() $body:block) => {
        harness! {
            #[kani::stub(iggy::utils::checksum::calculate, crate::verif::stubs::cheap_checksum_stub)]
            #[kani::stub(iggy::models::header::get_headers_size_bytes, crate::verif::stubs::headers_size_absent_stub)]
            $(#[$m])*
            fn $name() $body
        }
    };
}

/// Harness over the de-asynced twin tree (`crate::verif::sync`): streaming stubs + the path-producer
/// and cache-tracker stubs re-targeted at the twin functions.
macro_rules! harness_sync {
    ($(#[$m:meta])* fn $name:ident() $body:block) => {
        harness_stream! {
            #[kani::stub(crate::verif::sync::streaming::segments::segment::Segment::get_log_path, crate::verif::stubs::log_path_stub)]
            #[kani::stub(crate::verif::sync::streaming::segments::segment::Segment::get_index_path, crate::verif::stubs::index_path_stub)]
            #[kani::stub(crate::verif::sync::streaming::partitions::partition::ConsumerOffset::new, crate::verif::su::consumer_offset_new_stub)]
            #[kani::stub(crate::verif::sync::streaming::cache::memory_tracker::CacheMemoryTracker::initialize, crate::verif::sync::streaming::cache::memory_tracker::verif_hook::initialize_stub)]
            #[kani::stub(crate::verif::sync::streaming::cache::memory_tracker::CacheMemoryTracker::get_instance, crate::verif::sync::streaming::cache::memory_tracker::verif_hook::get_instance_stub)]
            $(#[$m])*
            fn $name() $body
        }
    };
}

/// Harness that needs the real checksum function (bit-serial CRC-32/IEEE == crc32fast).
macro_rules! harness_crc {
    ($(#[$m:meta])* fn $name:ident() $body:block) => {
        harness! {
            #[kani::stub(iggy::utils::checksum::calculate, crate::verif::stubs::crc32_stub)]
            $(#[$m])*
            fn $name() $body
        }
    };
}

macro_rules! typed_msg_vec {
    ($name:ident, $($m:expr),+ $(,)?) => {
        let mut __typed_arr = core::mem::ManuallyDrop::new([$($m),+]);
        let $name: Vec<iggy::messages::send_messages::Message> =
            unsafe { Vec::from_raw_parts(__typed_arr.as_mut_ptr(), __typed_arr.len(), 0) };
    };
}

/// `typed_arc!(name: Type = value)`: an `Arc<Type>` whose allocation is a *typed* stack object
/// (`#[repr(C)] { strong, weak, data }`, the layout of `ArcInner`) instead of an untyped heap byte
/// array. Measured: a field read through `Arc::new(cfg)` is not constant-folded by CBMC (every branch
/// on a configuration value is then explored on both sides), through this Arc it is. The reference
/// counts start at 1 and the Arc is never released (`mem::forget` at the end of the harness).
#[repr(C)]
pub struct TypedArcInner<T> {
    pub strong: core::sync::atomic::AtomicUsize,
    pub weak: core::sync::atomic::AtomicUsize,
    pub data: T,
}
macro_rules! typed_arc {
    ($name:ident : $t:ty = $v:expr) => {
        let __inner = core::mem::ManuallyDrop::new(crate::verif::TypedArcInner::<$t> {
            strong: core::sync::atomic::AtomicUsize::new(1),
            weak: core::sync::atomic::AtomicUsize::new(1),
            data: $v,
        });
        let $name: std::sync::Arc<$t> = unsafe { std::sync::Arc::from_raw(&__inner.data as *const $t) };
    };
}

/// `typed_segments!(partition)`: re-home `partition.segments` (capacity 4) in a *typed* stack array.
/// CBMC keeps field-sensitive SSA symbols for typed objects; a `Vec<Segment>` buffer obtained from
/// the allocator is an untyped byte array, and every access to a (large) `Segment` in it becomes a
/// deep byte_extract/byte_update expression (measured: one 1-message append > 420 s of symex).
/// Semantics are unchanged: same elements, same order, capacity 4; growing beyond 4 would make
/// `realloc` fail its precondition and be reported. The partition must be `mem::forget`-ed.
macro_rules! typed_segments {
    ($p:expr) => {
        let __old = core::mem::take(&mut $p.segments);
        let __n = __old.len();
        assert!(__n >= 1 && __n <= 4);
        let mut __it = __old.into_iter();
        let __s0 = __it.next().unwrap();
        // slots beyond `len` are never read or dropped by Vec; fill them with bitwise copies
        let __d1 = unsafe { core::ptr::read(&__s0) };
        let __d2 = unsafe { core::ptr::read(&__s0) };
        let __d3 = unsafe { core::ptr::read(&__s0) };
        let mut __store = core::mem::ManuallyDrop::new([__s0, __d1, __d2, __d3]);
        let mut __i = 1;
        while __i < __n {
            __store[__i] = __it.next().unwrap();
            __i += 1;
        }
        core::mem::forget(__it);
        $p.segments = unsafe { Vec::from_raw_parts(__store.as_mut_ptr(), __n, 4) };
    };
}

/// De-asynced twin of the storage core, regenerated from /repo's current source by
/// /verif/tools/deasync.py before every build (see that file for the why and the exact rules).
#[path = "/verif/.cache/sync_tree/mod.rs"]
pub mod sync;

pub mod util;
pub mod su;

// Harness modules are selected per run by /verif/check (it writes this file before building), so
// that one property's run does not pay code generation for every other property's harnesses.
include!(concat!(env!("VERIF_SELECT_DIR"), "/select_server.rs"));

// Concrete-playback unit tests generated from counterexamples (written by `check` on demand).
#[cfg(test)]
mod playback {
    include!(concat!(env!("VERIF_SELECT_DIR"), "/playback_tests_server.rs"));
}
