//! Kani proof harnesses for the `server` crate. Included from `/repo/server/src/lib.rs` under
//! `#[cfg(kani)]` only (hook recorded in MANIFEST.hooks). Nothing here is compiled by the
//! ordinary build or by the repository's test suite.
#![allow(dead_code, unused_imports, unused_macros, clippy::all)]

pub mod stubs;

/// Standard harness wrapper: `#[kani::proof]` plus the environment stubs of DESIGN.md §2.3.
/// Extra attributes (unwind, additional stubs) are passed through.
macro_rules! harness {
    ($(#[$m:meta])* fn $name:ident() $body:block) => {
        #[kani::proof]
        #[kani::stub(alloc::fmt::format, crate::verif::stubs::format_stub)]
        #[kani::stub(tracing::callsite::DefaultCallsite::register, crate::verif::stubs::callsite_register_stub)]
        #[kani::stub(tracing::__macro_support::__is_enabled, crate::verif::stubs::is_enabled_stub)]
        #[kani::stub(tracing::Event::dispatch, crate::verif::stubs::event_dispatch_stub)]
        #[kani::stub(tracing::log::max_level, crate::verif::stubs::log_max_level_stub)]
        #[kani::stub(tracing::__macro_support::__tracing_log, crate::verif::stubs::tracing_log_stub)]
        #[kani::stub(iggy::utils::timestamp::IggyTimestamp::as_micros, crate::verif::stubs::ts_as_micros_stub)]
        #[kani::stub(<iggy::utils::timestamp::IggyTimestamp as core::convert::From<u64>>::from, crate::verif::stubs::ts_from_stub)]
        #[kani::stub(ahash::RandomState::new, crate::verif::stubs::random_state_stub)]
        #[kani::stub(std::thread::available_parallelism, crate::verif::stubs::available_parallelism_stub)]
        #[kani::stub(bytes::BytesMut::freeze, crate::verif::stubs::freeze_stub)]
        #[kani::stub(iggy::utils::checksum::calculate, crate::verif::stubs::crc32_stub)]
        $(#[$m])*
        pub fn $name() $body
    };
}

pub mod util;

// Harness modules are selected per run by /verif/check (it writes this file before building), so
// that one property's run does not pay code generation for every other property's harnesses.
include!("/verif/.cache/select_server.rs");

// Concrete-playback unit tests generated from counterexamples (written by `check` on demand).
#[cfg(test)]
mod playback {
    include!("/verif/.cache/playback_tests_server.rs");
}
