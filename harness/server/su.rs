//! Helpers for harnesses over the de-asynced twin tree (`crate::verif::sync`).
use super::stubs::{enc32, string_of};
use super::util::{static_bytes, system_config};
use crate::configs::system::SystemConfig;
use crate::verif::sync::streaming::batching::appendable_batch_info::AppendableBatchInfo;
use crate::verif::sync::streaming::models::messages::RetainedMessage;
use crate::verif::sync::streaming::partitions::partition::{ConsumerOffset, Partition};
use crate::verif::sync::streaming::persistence::persister::{FilePersister, PersisterKind};
use crate::verif::sync::streaming::segments::Segment;
use crate::verif::sync::streaming::storage::SystemStorage;
use iggy::consumer::ConsumerKind;
use iggy::messages::send_messages::Message;
use iggy::models::messages::MessageState;
use iggy::utils::byte_size::IggyByteSize;
use iggy::utils::expiry::IggyExpiry;
use iggy::utils::sizeable::Sizeable;
use iggy::utils::timestamp::IggyTimestamp;
use std::sync::atomic::{AtomicU32, AtomicU64};
use std::sync::Arc;

pub use super::util::{counters, message, Counters};

/// `Arc<String>` allocated in a typed static arena (see `typed_arc!` in mod.rs for why): the offset
/// file path is read back through this Arc on every later store, and a heap `Arc` whose reference
/// count has been touched is no longer constant-folded by CBMC, which makes every file lookup symbolic.
/// The strong count starts at 2: an arena slot is never released (dropping the last `Arc` of a deleted
/// offset would otherwise hand a static object to the deallocator, which Kani rightly rejects - that
/// was a false alarm of the two thorough delete harnesses, corrected here).
static mut PATH_ARENA: [crate::verif::TypedArcInner<String>; 8] = [const {
    crate::verif::TypedArcInner { strong: core::sync::atomic::AtomicUsize::new(2), weak: core::sync::atomic::AtomicUsize::new(1), data: String::new() }
}; 8];
static mut PATH_ARENA_NEXT: usize = 0;

#[allow(static_mut_refs)]
fn typed_arc_string(s: String) -> Arc<String> {
    unsafe {
        let i = PATH_ARENA_NEXT;
        assert!(i < 8, "path arena exhausted (harness bound)");
        PATH_ARENA_NEXT = i + 1;
        PATH_ARENA[i].data = s;
        Arc::from_raw(&PATH_ARENA[i].data as *const String)
    }
}

pub fn consumer_offset_new_stub(kind: ConsumerKind, consumer_id: u32, offset: u64, path: &str) -> ConsumerOffset {
    let s = string_of(&[path.as_bytes(), b"/", &enc32(consumer_id)]);
    ConsumerOffset { kind, consumer_id, offset, path: typed_arc_string(s) }
}

pub fn storage(cfg: &Arc<SystemConfig>) -> Arc<SystemStorage> {
    Arc::new(SystemStorage::new(cfg.clone(), Arc::new(PersisterKind::File(FilePersister))))
}

pub fn new_partition(cfg: &Arc<SystemConfig>, st: &Arc<SystemStorage>, c: &Counters, with_segment: bool, persist: bool) -> Partition {
    let mut p = Partition::create(
        1, 1, 1, with_segment, cfg.clone(), st.clone(), cfg.segment.message_expiry,
        c.msgs_stream.clone(), c.msgs_topic.clone(), c.size_stream.clone(), c.size_topic.clone(),
        c.segs_stream.clone(), IggyTimestamp::zero(),
    );
    if persist {
        p.persist().unwrap();
    }
    p
}

pub fn segment(start_offset: u64, cfg: Arc<SystemConfig>) -> Segment {
    Segment::create(
        1, 1, 1, start_offset, cfg, IggyExpiry::NeverExpire,
        Arc::new(AtomicU64::new(0)), Arc::new(AtomicU64::new(0)), Arc::new(AtomicU64::new(0)),
        Arc::new(AtomicU64::new(0)), Arc::new(AtomicU64::new(0)), Arc::new(AtomicU64::new(0)),
    )
}

pub fn retained(offset: u64, timestamp: u64, id: u128, payload: Vec<u8>) -> Arc<RetainedMessage> {
    Arc::new(RetainedMessage {
        id,
        offset,
        timestamp,
        checksum: 0,
        message_state: MessageState::Available,
        headers: None,
        payload: static_bytes(payload),
    })
}

pub fn batch_info(msgs: &[Message]) -> AppendableBatchInfo {
    let mut sz = IggyByteSize::default();
    let mut i = 0;
    while i < msgs.len() {
        sz += msgs[i].get_size_bytes();
        i += 1;
    }
    AppendableBatchInfo::new(sz, 1)
}

use crate::verif::sync::streaming::topics::topic::Topic;
use iggy::compression::compression_algorithm::CompressionAlgorithm;
use iggy::utils::topic_size::MaxTopicSize;
use iggy::verif_model::map::AHashMap;

/// Topic 1 of stream 1 built literally (all fields are pub / pub(crate)): no constructor I/O.
pub fn new_topic(cfg: &Arc<SystemConfig>, st: &Arc<SystemStorage>, c: &Counters, max_topic_size: MaxTopicSize, message_expiry: IggyExpiry) -> Topic {
    Topic {
        stream_id: 1,
        topic_id: 1,
        name: String::new(),
        path: String::new(),
        partitions_path: String::new(),
        size_bytes: c.size_topic.clone(),
        size_of_parent_stream: c.size_stream.clone(),
        messages_count_of_parent_stream: c.msgs_stream.clone(),
        messages_count: c.msgs_topic.clone(),
        segments_count_of_parent_stream: c.segs_stream.clone(),
        config: cfg.clone(),
        partitions: AHashMap::new(),
        storage: st.clone(),
        consumer_groups: AHashMap::new(),
        consumer_groups_ids: AHashMap::new(),
        current_consumer_group_id: AtomicU32::new(1),
        current_partition_id: AtomicU32::new(1),
        message_expiry,
        compression_algorithm: CompressionAlgorithm::None,
        max_topic_size,
        replication_factor: 1,
        created_at: IggyTimestamp::zero(),
    }
}

// ------------------------------------------------------------------------------------------------
// Cut / summary stubs for twin (sync) functions. A *cut* panics: reaching it is reported, nothing is
// hidden. A *summary* replaces a callee by its contract, and the contract is discharged by its own
// harness (named next to each summary).
// ------------------------------------------------------------------------------------------------
use iggy::confirmation::Confirmation;
use iggy::error::IggyError;

pub fn cut_persist_messages(_s: &mut Segment, _c: Option<Confirmation>) -> Result<usize, IggyError> {
    panic!("cut: Segment::persist_messages must not be reached in this harness");
}
pub fn cut_add_persisted_segment(_p: &mut Partition, _start: u64) -> Result<(), IggyError> {
    panic!("cut: Partition::add_persisted_segment must not be reached in this harness");
}
pub fn cut_partition_append(_p: &mut Partition, _i: AppendableBatchInfo, _m: Vec<Message>, _c: Option<Confirmation>) -> Result<(), IggyError> {
    panic!("cut: Partition::append_messages must not be reached in this harness");
}
/// summary of `Segment::is_full` for an OPEN segment: full iff size >= max size (an open segment is
/// never expired). Contract discharged by harness `c14_open_segment_full_iff_size`.
pub fn summary_is_full_open(s: &Segment) -> bool {
    assert!(!s.is_closed, "summary_is_full_open used on a closed segment");
    s.size_bytes >= s.max_size_bytes
}

/// summary of `FilePartitionStorage::save_consumer_offset` (twin): records what would be written.
/// The real write path (persister + model FS) is exercised by the get-after-store harnesses.
pub static mut LAST_SAVED_OFFSET: Option<u64> = None;
pub static mut SAVE_CALLS: u32 = 0;
pub fn summary_save_consumer_offset(
    _s: &crate::verif::sync::streaming::partitions::storage::FilePartitionStorage,
    offset: u64,
    _path: &str,
) -> Result<(), IggyError> {
    unsafe {
        LAST_SAVED_OFFSET = Some(offset);
        SAVE_CALLS += 1;
    }
    Ok(())
}

