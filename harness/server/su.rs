//! Helpers for harnesses over the de-asynced twin tree (`crate::verif::sync`).
use super::stubs::{enc32, string_of};
use super::util::{static_bytes, system_config};
use crate::configs::system::SystemConfig;
use crate::verif::sync::streaming::batching::appendable_batch_info::AppendableBatchInfo;
use crate::verif::sync::streaming::models::messages::RetainedMessage;
use crate::verif::sync::streaming::partitions::partition::{ConsumerOffset, Partition};
use crate::verif::sync::streaming::persistence::persister::{FilePersister, PersisterKind};
use crate::verif::sync::streaming::segments::Segment;
use crate::verif::sync::streaming::storage::SystemStorage;
use iggy::consumer::ConsumerKind;
use iggy::messages::send_messages::Message;
use iggy::models::messages::MessageState;
use iggy::utils::byte_size::IggyByteSize;
use iggy::utils::expiry::IggyExpiry;
use iggy::utils::sizeable::Sizeable;
use iggy::utils::timestamp::IggyTimestamp;
use std::sync::atomic::{AtomicU32, AtomicU64};
use std::sync::Arc;

pub use super::util::{counters, message, Counters};

pub fn consumer_offset_new_stub(kind: ConsumerKind, consumer_id: u32, offset: u64, path: &str) -> ConsumerOffset {
    let s = string_of(&[path.as_bytes(), b"/", &enc32(consumer_id)]);
    ConsumerOffset { kind, consumer_id, offset, path: Arc::new(s) }
}

pub fn storage(cfg: &Arc<SystemConfig>) -> Arc<SystemStorage> {
    Arc::new(SystemStorage::new(cfg.clone(), Arc::new(PersisterKind::File(FilePersister))))
}

pub fn new_partition(cfg: &Arc<SystemConfig>, st: &Arc<SystemStorage>, c: &Counters, with_segment: bool, persist: bool) -> Partition {
    let mut p = Partition::create(
        1, 1, 1, with_segment, cfg.clone(), st.clone(), cfg.segment.message_expiry,
        c.msgs_stream.clone(), c.msgs_topic.clone(), c.size_stream.clone(), c.size_topic.clone(),
        c.segs_stream.clone(), IggyTimestamp::zero(),
    );
    if persist {
        p.persist().unwrap();
    }
    p
}

pub fn segment(start_offset: u64, cfg: Arc<SystemConfig>) -> Segment {
    Segment::create(
        1, 1, 1, start_offset, cfg, IggyExpiry::NeverExpire,
        Arc::new(AtomicU64::new(0)), Arc::new(AtomicU64::new(0)), Arc::new(AtomicU64::new(0)),
        Arc::new(AtomicU64::new(0)), Arc::new(AtomicU64::new(0)), Arc::new(AtomicU64::new(0)),
    )
}

pub fn retained(offset: u64, timestamp: u64, id: u128, payload: Vec<u8>) -> Arc<RetainedMessage> {
    Arc::new(RetainedMessage {
        id,
        offset,
        timestamp,
        checksum: 0,
        message_state: MessageState::Available,
        headers: None,
        payload: static_bytes(payload),
    })
}

pub fn batch_info(msgs: &[Message]) -> AppendableBatchInfo {
    let mut sz = IggyByteSize::default();
    let mut i = 0;
    while i < msgs.len() {
        sz += msgs[i].get_size_bytes();
        i += 1;
    }
    AppendableBatchInfo::new(sz, 1)
}
