//! @property C09
//! @enc Permissioner::{init_permissions_for_user, update_permissions_for_user, delete_permissions_for_user}, permissioner_rules::{messages::{poll_messages,append_messages}, topics::{get_topic,get_topics,create_topic,update_topic,delete_topic,purge_topic,manage_topic}, streams::*, consumer_groups::*, consumer_offsets::*, partitions::*}
//! @bounds one user; ALL 10 global flags symbolic, record presence symbolic; stream records for streams {1,2} (presence + 6 flags symbolic), topic table of the target stream present/absent symbolic with records for topics {1,2} (presence + 4 flags symbolic): ~2^45 permission sets per query; targets (stream,topic) in {(1,1),(1,2)} so that stream and topic ids coincide in one and differ in the other
//! @model AHashMap/AHashSet -> fixed-capacity array map (capacity 4)
//! @assume oracle = documented hierarchy of sdk/src/models/permissions.rs (manage_* includes read_*, read_streams includes read_topics, read_topics includes poll_messages, stream level extends global, topic level lowest); where the documentation is silent (does manage_* allow sending?) the oracle sides with the implementation, so only grants that NO record of the target justifies are reported
//! @out that every System entry point calls ensure_authenticated and the matching rule (a statement about ~45 async methods needing a full System); HTTP public endpoint list
use crate::streaming::users::permissioner::Permissioner;
use iggy::models::permissions::{GlobalPermissions, Permissions, StreamPermissions, TopicPermissions};
use iggy::verif_model::map::AHashMap;

pub struct World {
    pub g_present: bool,
    pub g: GlobalPermissions,
    pub s: [Option<([bool; 6], bool, [Option<[bool; 4]>; 2])>; 2], // per stream: flags, topics table present, topic records
}

fn any_global() -> GlobalPermissions {
    GlobalPermissions {
        manage_servers: kani::any(), read_servers: kani::any(), manage_users: kani::any(), read_users: kani::any(),
        manage_streams: kani::any(), read_streams: kani::any(), manage_topics: kani::any(), read_topics: kani::any(),
        poll_messages: kani::any(), send_messages: kani::any(),
    }
}

fn topic_of(f: [bool; 4]) -> TopicPermissions {
    TopicPermissions { manage_topic: f[0], read_topic: f[1], poll_messages: f[2], send_messages: f[3] }
}

fn stream_of(f: [bool; 6], topics_present: bool, t: [Option<[bool; 4]>; 2]) -> StreamPermissions {
    let topics = if topics_present {
        let mut m = AHashMap::new();
        if let Some(x) = t[0] { m.insert(1u32, topic_of(x)); }
        if let Some(x) = t[1] { m.insert(2u32, topic_of(x)); }
        Some(m)
    } else {
        None
    };
    StreamPermissions { manage_stream: f[0], read_stream: f[1], manage_topics: f[2], read_topics: f[3], poll_messages: f[4], send_messages: f[5], topics }
}

/// arbitrary permission set; `topics_forced` = Some(b) fixes the presence of the topic tables
fn any_world(topics_forced: Option<bool>) -> World {
    let mut s: [Option<([bool; 6], bool, [Option<[bool; 4]>; 2])>; 2] = [None, None];
    let mut i = 0;
    while i < 2 {
        if kani::any() {
            let tp: bool = match topics_forced { Some(b) => b, None => kani::any() };
            let t0: Option<[bool; 4]> = if kani::any() { Some(kani::any()) } else { None };
            let t1: Option<[bool; 4]> = if kani::any() { Some(kani::any()) } else { None };
            s[i] = Some((kani::any(), tp, [t0, t1]));
        }
        i += 1;
    }
    World { g_present: true, g: any_global(), s }
}

fn permissions_of(w: &World) -> Permissions {
    let mut streams = AHashMap::new();
    let mut any_stream = false;
    let mut i = 0;
    while i < 2 {
        if let Some((f, tp, t)) = w.s[i] {
            streams.insert(i as u32 + 1, stream_of(f, tp, t));
            any_stream = true;
        }
        i += 1;
    }
    let streams_absent: bool = kani::any();
    Permissions { global: w.g.clone(), streams: if any_stream || !streams_absent { Some(streams) } else { None } }
}

fn permissioner_of(w: &World) -> Permissioner {
    let mut p = Permissioner::default();
    p.init_permissions_for_user(1, Some(permissions_of(w)));
    p
}

// ---- the documented hierarchy, for target (stream s, topic t) ----
struct Eff { manage_topic: bool, read_topic: bool, poll: bool, send: bool, manage_stream: bool, read_stream: bool, manage_topics_of_stream: bool, read_topics_of_stream: bool }

fn effective(w: &World, s: u32, t: u32) -> Eff {
    let g = &w.g;
    let (sf, tf) = match w.s[(s - 1) as usize] {
        Some((f, tp, tt)) => (Some(f), if tp { tt[(t - 1) as usize] } else { None }),
        None => (None, None),
    };
    let sf = sf.unwrap_or([false; 6]);
    let tf = tf.unwrap_or([false; 4]);
    let manage_stream = g.manage_streams || sf[0];
    let read_stream = manage_stream || g.read_streams || sf[1];
    let manage_topics_of_stream = manage_stream || g.manage_topics || sf[2];
    let read_topics_of_stream = manage_topics_of_stream || read_stream || g.read_topics || sf[3];
    let manage_topic = manage_topics_of_stream || tf[0];
    let read_topic = manage_topic || read_topics_of_stream || tf[1];
    let poll = read_topic || g.poll_messages || sf[4] || tf[2];
    let send = manage_topic || g.send_messages || sf[5] || tf[3];
    Eff { manage_topic, read_topic, poll, send, manage_stream, read_stream, manage_topics_of_stream, read_topics_of_stream }
}

fn messages_rules(s: u32, t: u32) {
    let w = any_world(None);
    let p = permissioner_of(&w);
    let e = effective(&w, s, t);
    if p.poll_messages(1, s, t).is_ok() { assert!(e.poll, "poll allowed although no global, stream or topic record of the target grants it"); }
    if p.append_messages(1, s, t).is_ok() { assert!(e.send, "send allowed although no global, stream or topic record of the target grants it"); }
    // the unknown user 2 is refused everything
    assert!(p.poll_messages(2, s, t).is_err() && p.append_messages(2, s, t).is_err());
    kani::cover!(p.poll_messages(1, s, t).is_ok() && !w.g.poll_messages, "poll granted below global level");
    core::mem::forget(p);
}
harness! { #[kani::unwind(8)] fn c09_message_rules_sound_s1_t1_t() { messages_rules(1, 1) } }
harness! { #[kani::unwind(8)] fn c09_message_rules_sound_s1_t2() { messages_rules(1, 2) } }

fn topic_rules(s: u32, t: u32, topics_forced: Option<bool>) {
    let w = any_world(topics_forced);
    let p = permissioner_of(&w);
    let e = effective(&w, s, t);
    if p.get_topic(1, s, t).is_ok() { assert!(e.read_topic, "get_topic allowed without a grant for the target"); }
    if p.update_topic(1, s, t).is_ok() { assert!(e.manage_topic, "update_topic allowed without a grant for the target"); }
    if p.delete_topic(1, s, t).is_ok() { assert!(e.manage_topic); }
    if p.purge_topic(1, s, t).is_ok() { assert!(e.manage_topic); }
    if p.create_topic(1, s).is_ok() { assert!(e.manage_topics_of_stream); }
    kani::cover!(p.get_topic(1, s, t).is_ok() && !e.read_topics_of_stream, "get_topic granted at topic level");
    core::mem::forget(p);
}
// with a topic table present in every stream record
harness! { #[kani::unwind(8)] fn c09_topic_rules_sound_s1_t1_t() { topic_rules(1, 1, Some(true)) } }
harness! { #[kani::unwind(8)] fn c09_topic_rules_sound_s1_t2_t() { topic_rules(1, 2, Some(true)) } }
// "evaluating permissions never crashes whatever combination of records the user has":
// stream records WITHOUT a topic table
harness! { #[kani::unwind(8)] fn c09_topic_rules_never_crash_without_topic_table() { topic_rules(1, 1, None) } }

fn list_topics_rule(s: u32) {
    let w = any_world(None);
    let p = permissioner_of(&w);
    let e = effective(&w, s, 1);
    let e2 = effective(&w, s, 2);
    // listing the topics of a stream needs a stream-level (or global) read grant; a topic-level grant
    // justifies it at most for that stream's own topics
    if p.get_topics(1, s).is_ok() {
        assert!(e.read_topic || e2.read_topic, "get_topics allowed although no record of this stream grants reading any of its topics");
    }
    core::mem::forget(p);
}
harness! { #[kani::unwind(8)] fn c09_list_topics_sound_s1() { list_topics_rule(1) } }
harness! { #[kani::unwind(8)] fn c09_list_topics_sound_s2_t() { list_topics_rule(2) } }

// granting more never turns an allowed request into a denied one (flag-wise monotonicity of the
// two hot-path rules): P' = P with one more global / stream flag set
harness! { #[kani::unwind(8)] fn c09_monotone_in_flags_t() {
    let w = any_world(Some(true));
    let mut w2 = World { g_present: true, g: w.g.clone(), s: w.s };
    // raise an arbitrary subset of flags
    if kani::any() { w2.g.poll_messages = true; }
    if kani::any() { w2.g.send_messages = true; }
    if kani::any() { w2.g.read_topics = true; }
    if let Some((mut f, tp, t)) = w2.s[0] {
        let k: usize = kani::any();
        kani::assume(k < 6);
        f[k] = true;
        w2.s[0] = Some((f, tp, t));
    }
    let p = permissioner_of(&w);
    let p2 = permissioner_of(&w2);
    if p.poll_messages(1, 1, 1).is_ok() { assert!(p2.poll_messages(1, 1, 1).is_ok(), "more permissions turned an allowed poll into a denied one"); }
    if p.append_messages(1, 1, 1).is_ok() { assert!(p2.append_messages(1, 1, 1).is_ok()); }
    if p.get_topic(1, 1, 1).is_ok() { assert!(p2.get_topic(1, 1, 1).is_ok()); }
    kani::cover!(p.poll_messages(1, 1, 1).is_err() && p2.poll_messages(1, 1, 1).is_ok(), "strictly more");
    core::mem::forget(p);
    core::mem::forget(p2);
} }

// root can do everything; update and delete take effect for the next request, other users unaffected
harness! { #[kani::unwind(8)] fn c09_root_update_delete_t() {
    let mut p = Permissioner::default();
    p.init_permissions_for_user(1, Some(Permissions::root()));
    assert!(p.poll_messages(1, 1, 2).is_ok() && p.append_messages(1, 2, 1).is_ok() && p.get_topic(1, 1, 1).is_ok());
    assert!(p.update_topic(1, 1, 1).is_ok() && p.create_topic(1, 2).is_ok() && p.get_topics(1, 1).is_ok());
    let w = any_world(Some(true));
    p.init_permissions_for_user(2, Some(permissions_of(&w)));
    let before_poll = p.poll_messages(2, 1, 1).is_ok();
    // replace user 2's permissions by an empty set: everything is denied from the next request on
    let none = Permissions { global: GlobalPermissions { manage_servers: false, read_servers: false, manage_users: false, read_users: false, manage_streams: false, read_streams: false, manage_topics: false, read_topics: false, poll_messages: false, send_messages: false }, streams: None };
    p.update_permissions_for_user(2, Some(none));
    assert!(p.poll_messages(2, 1, 1).is_err() && p.append_messages(2, 1, 1).is_err() && p.get_topic(2, 1, 1).is_err(), "stale permission survived an update");
    assert!(p.poll_messages(1, 1, 1).is_ok(), "updating one user changed another");
    p.init_permissions_for_user(2, Some(permissions_of(&w)));
    p.delete_permissions_for_user(2);
    assert!(p.poll_messages(2, 1, 1).is_err() && p.append_messages(2, 1, 1).is_err() && p.get_topic(2, 1, 1).is_err(), "stale permission survived deletion");
    kani::cover!(before_poll, "user 2 could poll before the update");
    core::mem::forget(p);
} }

// lighter update/delete check for the quick tier: one stream-level record with symbolic flags is
// revoked by update (to an empty set) or by delete; afterwards NOTHING is allowed on that stream,
// including through the denormalised poll/send sets.
fn revoke(by_delete: bool) {
    let f: [bool; 6] = kani::any();
    let none = GlobalPermissions { manage_servers: false, read_servers: false, manage_users: false, read_users: false, manage_streams: false, read_streams: false, manage_topics: false, read_topics: false, poll_messages: false, send_messages: false };
    let mut streams = AHashMap::new();
    streams.insert(1u32, stream_of(f, false, [None, None]));
    let mut g = none.clone();
    g.poll_messages = kani::any();
    g.send_messages = kani::any();
    let mut p = Permissioner::default();
    p.init_permissions_for_user(2, Some(Permissions { global: g, streams: Some(streams) }));
    if by_delete {
        p.delete_permissions_for_user(2);
    } else {
        p.update_permissions_for_user(2, Some(Permissions { global: none, streams: None }));
    }
    assert!(p.poll_messages(2, 1, 1).is_err(), "revoked poll permission still honoured");
    assert!(p.append_messages(2, 1, 1).is_err(), "revoked send permission still honoured");
    assert!(p.get_topic(2, 1, 1).is_err() && p.update_topic(2, 1, 1).is_err() && p.create_topic(2, 1).is_err());
    kani::cover!(f[5] && f[4], "stream-level poll and send had been granted");
    core::mem::forget(p);
}
harness! { #[kani::unwind(8)] fn c09_update_revokes_stream_grants() { revoke(false) } }
harness! { #[kani::unwind(8)] fn c09_delete_revokes_stream_grants() { revoke(true) } }

// ---- thorough tier: the remaining rule families that take a stream / topic target ----
fn stream_rules(s: u32) {
    let w = any_world(Some(true));
    let p = permissioner_of(&w);
    let e = effective(&w, s, 1);
    if p.get_stream(1, s).is_ok() { assert!(e.read_stream, "get_stream allowed without a grant for that stream"); }
    if p.update_stream(1, s).is_ok() { assert!(e.manage_stream, "update_stream allowed without a grant for that stream"); }
    if p.delete_stream(1, s).is_ok() { assert!(e.manage_stream); }
    if p.purge_stream(1, s).is_ok() { assert!(e.manage_stream); }
    // global-only operations ignore every per-stream record
    if p.get_streams(1).is_ok() { assert!(w.g.manage_streams || w.g.read_streams); }
    if p.create_stream(1).is_ok() { assert!(w.g.manage_streams); }
    assert!(p.get_stream(2, s).is_err() && p.create_stream(2).is_err()); // unknown user
    kani::cover!(p.update_stream(1, s).is_ok() && !w.g.manage_streams, "managed through the stream record");
    core::mem::forget(p);
}
harness! { #[kani::unwind(8)] fn c09_stream_rules_sound_s1_t() { stream_rules(1) } }
harness! { #[kani::unwind(8)] fn c09_stream_rules_sound_s2_t() { stream_rules(2) } }

fn derived_rules(s: u32, t: u32) {
    let w = any_world(Some(true));
    let p = permissioner_of(&w);
    let e = effective(&w, s, t);
    // consumer groups follow get_topic, consumer offsets follow poll_messages, partitions follow topic management
    if p.create_consumer_group(1, s, t).is_ok() { assert!(e.read_topic); }
    if p.delete_consumer_group(1, s, t).is_ok() { assert!(e.read_topic); }
    if p.get_consumer_group(1, s, t).is_ok() { assert!(e.read_topic); }
    if p.join_consumer_group(1, s, t).is_ok() { assert!(e.read_topic); }
    if p.leave_consumer_group(1, s, t).is_ok() { assert!(e.read_topic); }
    if p.get_consumer_offset(1, s, t).is_ok() { assert!(e.poll); }
    if p.store_consumer_offset(1, s, t).is_ok() { assert!(e.poll); }
    if p.delete_consumer_offset(1, s, t).is_ok() { assert!(e.poll); }
    if p.create_partitions(1, s, t).is_ok() { assert!(e.manage_topic); }
    if p.delete_partitions(1, s, t).is_ok() { assert!(e.manage_topic); }
    kani::cover!(p.store_consumer_offset(1, s, t).is_ok() && !e.read_topic, "offset stored with a bare poll grant");
    core::mem::forget(p);
}
harness! { #[kani::unwind(8)] fn c09_group_offset_partition_rules_sound_s1_t2_t() { derived_rules(1, 2) } }
