//! Child-module hook of server/src/streaming/batching/batch_accumulator.rs: gives harnesses access to private items of the parent
//! module without changing any visibility in the repository.
#![allow(dead_code, unused_imports)]
use super::*;

/// read-only view of the buffered messages (private field)
pub fn messages(acc: &BatchAccumulator) -> &Vec<Arc<RetainedMessage>> {
    &acc.messages
}
