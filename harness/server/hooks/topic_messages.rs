//! Child-module hook of server/src/streaming/topics/messages.rs: gives harnesses access to private items of the parent
//! module without changing any visibility in the repository.
#![allow(dead_code, unused_imports)]
use super::*;

pub fn next_partition_id(t: &Topic) -> u32 {
    t.get_next_partition_id()
}
pub fn partition_id_by_key(t: &Topic, key: &[u8]) -> u32 {
    t.calculate_partition_id_by_messages_key_hash(key)
}
pub fn cache_integrity_check(cache: &[Arc<RetainedMessage>]) -> bool {
    Topic::cache_integrity_check(cache)
}
