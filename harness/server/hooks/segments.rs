//! Child-module hook of server/src/streaming/segments/mod.rs: gives harnesses access to private items of the parent
//! module without changing any visibility in the repository.
#![allow(dead_code, unused_imports)]
use super::*;
pub use super::indexes::IndexRange;
pub use super::logs::SegmentLogReader;
