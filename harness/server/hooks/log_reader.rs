//! Child-module hook of server/src/streaming/segments/logs/log_reader.rs: gives harnesses access to private
//! items of the parent module without changing any visibility in the repository.
// @deasync (tools/deasync.py generates a synchronous copy of this file for the twin tree)
#![allow(dead_code, unused_imports, static_mut_refs)]
use super::*;

/// Stand-in for `SegmentLogReader::read_at` ("allocate `len` bytes, fill them from the file at
/// `offset`"): same contract, but the buffer lives in a typed static arena instead of the heap.
/// Measured: bytes that went through a heap `Vec` are not constant-folded by CBMC, so the length
/// field parsed from the header became a symbolic allocation size (37 GB after 10 min); through
/// the arena the framing bytes stay constants. A read beyond the end of the file is a failure in
/// the model FS's strict mode, which is how "the reader looked past the size it was given" shows.
/// The buffer of a read sits at the same position of the arena as the bytes have in the file, so no
/// allocation counter (which would become symbolic after the first data-dependent branch) is needed;
/// reads of a scan are disjoint file ranges, and the file does not change while it is scanned.
const ARENA: usize = 384;
static mut READ_ARENA: [u8; ARENA] = [0u8; ARENA];

pub fn read_at_stub(r: &SegmentLogReader, offset: u64, len: u64) -> Result<Vec<u8>, std::io::Error> {
    let n = len as usize;
    let at = offset as usize;
    unsafe {
        assert!(at + n <= ARENA, "read arena exhausted (harness bound)");
        r.file.read_exact_at(&mut READ_ARENA[at..at + n], offset)?;
        // capacity 0: the Vec never releases the arena
        Ok(Vec::from_raw_parts(READ_ARENA.as_mut_ptr().add(at), n, 0))
    }
}

/// (inherent functions, so that harnesses reach them through the re-exported type: the module path to
/// this hook is private)
impl SegmentLogReader {
    /// one step of every scan loop, callable with a CONSTANT position: through the scan loops the position
    /// of the second step comes out of a niche-encoded `Result<Option<(batch, bytes_read)>>`, which CBMC
    /// does not constant-fold - every later read then has a symbolic address (measured: > 40 GB)
    pub async fn verif_read_next_batch(&self, offset: u64, file_size: u64) -> Result<Option<(RetainedMessageBatch, u64)>, IggyError> {
        self.read_next_batch(offset, file_size).await
    }

    pub fn verif_open_for_read(path: &str) -> File {
        OpenOptions::new().read(true).open(path).unwrap()
    }

    /// A reader whose file handle sits in a typed `ArcInner` supplied by the harness (see `typed_arc!` in
    /// harness/server/mod.rs: a field read through a heap `Arc` is not constant-folded by CBMC, and the
    /// slot number of the model file is such a field - every byte read then ranges over all six files).
    pub fn verif_over(inner: &crate::verif::TypedArcInner<File>, path: &str, size: Arc<AtomicU64>) -> SegmentLogReader {
        SegmentLogReader {
            file_path: path.to_string(),
            file: unsafe { Arc::from_raw(&inner.data as *const File) },
            log_size_bytes: size,
        }
    }
}
