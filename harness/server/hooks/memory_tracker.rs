//! Child-module hook of server/src/streaming/cache/memory_tracker.rs: gives harnesses access to private items of the parent
//! module without changing any visibility in the repository.
#![allow(dead_code, unused_imports)]
use super::*;

/// A tracker with the given limit, built without `sysinfo` (which spawns threads and reads /proc).
pub fn tracker(limit_bytes: u64) -> CacheMemoryTracker {
    CacheMemoryTracker { used_memory_bytes: AtomicU64::new(0), limit_bytes: IggyByteSize::from(limit_bytes) }
}

static mut VERIF_INSTANCE: Option<Arc<CacheMemoryTracker>> = None;

/// stub for `CacheMemoryTracker::initialize`
#[allow(static_mut_refs)]
pub fn initialize_stub(config: &CacheConfig) -> Option<Arc<CacheMemoryTracker>> {
    if !config.enabled {
        return None;
    }
    unsafe {
        if VERIF_INSTANCE.is_none() {
            let limit = match &config.size {
                MemoryResourceQuota::Bytes(b) => b.as_bytes_u64(),
                MemoryResourceQuota::Percentage(_) => 1 << 30,
            };
            VERIF_INSTANCE = Some(Arc::new(tracker(limit)));
        }
        VERIF_INSTANCE.clone()
    }
}

/// stub for `CacheMemoryTracker::get_instance`
#[allow(static_mut_refs)]
pub fn get_instance_stub() -> Option<Arc<CacheMemoryTracker>> {
    unsafe { VERIF_INSTANCE.clone() }
}
