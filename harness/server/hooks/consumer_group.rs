//! Child-module hook of server/src/streaming/topics/consumer_group.rs: gives harnesses access to private items of the parent
//! module without changing any visibility in the repository.
#![allow(dead_code, unused_imports)]
use super::*;

/// partitions currently assigned to member `id` (None if not a member), in index order 0..len
pub fn member_partitions(g: &ConsumerGroup, id: u32) -> Option<Vec<u32>> {
    let m = g.members.get(&id)?;
    let m = m.try_read().unwrap();
    let mut v = Vec::new();
    let mut i = 0u32;
    while (i as usize) < m.partitions.len() {
        v.push(*m.partitions.get(&i).expect("member partition indices must be 0..len"));
        i += 1;
    }
    Some(v)
}
pub fn member_cursor(g: &ConsumerGroup, id: u32) -> (Option<u32>, Option<u32>) {
    let m = g.members.get(&id).unwrap();
    let m = m.try_read().unwrap();
    (m.current_partition_index, m.current_partition_id)
}
pub fn members_count(g: &ConsumerGroup) -> usize {
    g.members.len()
}
