//! Child-module hook of server/src/streaming/topics/consumer_group.rs: gives harnesses access to private items of the parent
//! module without changing any visibility in the repository.
#![allow(dead_code, unused_imports)]
use super::*;

/// partitions currently assigned to member `id` in index order 0..len, as a fixed array + length
/// (a Vec of symbolic length would make CBMC allocate symbolic-size objects)
pub fn member_partitions(g: &ConsumerGroup, id: u32) -> Option<([u32; 8], usize)> {
    let m = g.members.get(&id)?;
    let m = m.try_read().unwrap();
    let n = m.partitions.len();
    assert!(n <= 8);
    let mut v = [0u32; 8];
    let mut i = 0usize;
    while i < 8 {
        if i < n {
            v[i] = *m.partitions.get(&(i as u32)).expect("member partition indices must be 0..len");
        }
        i += 1;
    }
    Some((v, n))
}
pub fn member_cursor(g: &ConsumerGroup, id: u32) -> (Option<u32>, Option<u32>) {
    let m = g.members.get(&id).unwrap();
    let m = m.try_read().unwrap();
    (m.current_partition_index, m.current_partition_id)
}
pub fn members_count(g: &ConsumerGroup) -> usize {
    g.members.len()
}
