//! Child-module hook of server/src/state/file.rs: gives harnesses access to private items of the parent
//! module without changing any visibility in the repository.
#![allow(dead_code, unused_imports)]
use super::*;

/// FileState built literally (private fields), version fixed: `FileState::new` parses the crate
/// version string, which is irrelevant to the journal's index bookkeeping.
pub fn new_state(path: &str, persister: Arc<PersisterKind>) -> FileState {
    FileState {
        current_index: AtomicU64::new(0),
        entries_count: AtomicU64::new(0),
        current_leader: AtomicU32::new(0),
        term: AtomicU64::new(0),
        version: 1,
        path: path.into(),
        persister,
        encryptor: None,
    }
}
