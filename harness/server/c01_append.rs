//! @property C01 C16
//! @enc Partition::append_messages (de-asynced twin; offset assignment, current_offset update, counters), Segment::append_batch, BatchAccumulator::{new,append}, RetainedMessage::new
//! @bounds one append step of n in {1,2,3} messages (payload 1 byte) from an ARBITRARY valid pre-state: current_offset < 2^40 symbolic, should_increment_offset symbolic, open last segment with symbolic start offset <= current, accumulator empty or holding one earlier message; save threshold not reached in this step
//! @stub Segment::persist_messages, Partition::add_persisted_segment -> cut (panic if reached); Segment::is_full -> summary for open segments (size >= max), discharged by c14_open_segment_full_iff_size
//! @out concurrent appenders; u64 wrap-around of offsets; the save/roll step (harness c01_persist_*)
use super::su::*;
use super::util::system_config;
use crate::verif::sync::streaming::batching::batch_accumulator::BatchAccumulator;
use iggy::utils::byte_size::IggyByteSize;
use std::sync::atomic::Ordering;
use std::sync::Arc;

const OFF_MAX: u64 = 1 << 40;

/// Inductive step: from any state satisfying the partition invariant, an accepted batch of n
/// messages gets offsets cur+1.. (or 0.. when the partition never held a message), in order, and the
/// invariant holds again.
fn step(n: usize, allow_buffered: bool) {
    step_shape(n, allow_buffered, false)
}

/// `rolled`: the last segment is the fresh, still empty one that `add_persisted_segment(end + 1)` creates
/// after a roll-over (start = current = previous end + 1, size 0) while the partition's current
/// offset is still the previous end.
fn step_shape(n: usize, allow_buffered: bool, rolled: bool) {
    typed_arc!(cfg: crate::configs::system::SystemConfig = system_config());
    let st = storage(&cfg);
    let c = counters();
    let mut p = new_partition(&cfg, &st, &c, true, false);
    typed_segments!(p);

    // ---- arbitrary valid pre-state ----
    let ever: bool = kani::any();
    let cur: u64 = kani::any();
    let start: u64 = kani::any();
    kani::assume(cur < OFF_MAX && start <= cur);
    let buffered: bool = if allow_buffered { kani::any() } else { false }; // one earlier message still in the accumulator
    if ever && rolled {
        kani::assume(!buffered);
        p.should_increment_offset = true;
        p.current_offset = cur;
        let seg = p.segments.last_mut().unwrap();
        seg.start_offset = cur + 1;
        seg.current_offset = cur + 1; // what Segment::create(start) sets
        seg.size_bytes = IggyByteSize::from(0u64);
    } else if ever {
        p.should_increment_offset = true;
        p.current_offset = cur;
        let seg = p.segments.last_mut().unwrap();
        seg.start_offset = start;
        seg.current_offset = cur;
        seg.size_bytes = IggyByteSize::from(100u64);
        if buffered {
            let mut acc = BatchAccumulator::new(cur, 10);
            acc.append(IggyByteSize::from(42u64), &[retained(cur, 5, 99, vec![9])]);
            seg.unsaved_messages = Some(acc);
            p.unsaved_messages_count = 1;
        }
        p.messages_count.store(cur - start + 1, Ordering::SeqCst);
    } else if rolled {
        kani::assume(false); // a roll-over implies earlier messages
    } else {
        kani::assume(cur == 0 && start == 0 && !buffered);
    }
    let count_before = p.messages_count.load(Ordering::SeqCst);
    let size_before = p.size_bytes.load(Ordering::SeqCst);

    // ---- the step ----
    let r = match n {
        1 => {
            typed_msg_vec!(msgs, message(1, vec![0]));
            let info = batch_info(&msgs);
            p.append_messages(info, msgs, None)
        }
        2 => {
            typed_msg_vec!(msgs, message(1, vec![0]), message(2, vec![1]));
            let info = batch_info(&msgs);
            p.append_messages(info, msgs, None)
        }
        _ => {
            typed_msg_vec!(msgs, message(1, vec![0]), message(2, vec![1]), message(3, vec![2]));
            let info = batch_info(&msgs);
            p.append_messages(info, msgs, None)
        }
    };
    assert!(r.is_ok());

    // ---- post-conditions ----
    let base = if ever { cur + 1 } else { 0 };
    assert!(p.should_increment_offset);
    assert!(p.current_offset == base + n as u64 - 1);
    let seg = p.segments.last().unwrap();
    assert!(seg.current_offset == p.current_offset);
    assert!(!seg.is_closed);
    let acc = seg.unsaved_messages.as_ref().unwrap();
    assert!(acc.batch_max_offset() == p.current_offset);
    let all = crate::verif::sync::streaming::batching::batch_accumulator::verif_hook::messages(acc);
    let skip = if ever && buffered { 1 } else { 0 };
    assert!(all.len() == n + skip);
    let mut i = 0;
    while i < n {
        assert!(all[skip + i].offset == base + i as u64); // consecutive, in send order
        assert!(all[skip + i].id == i as u128 + 1);
        i += 1;
    }
    if ever && buffered {
        assert!(acc.batch_base_offset() == cur);
        assert!(acc.unsaved_messages_count() == n + 1);
    } else {
        assert!(acc.batch_base_offset() == base);
        assert!(acc.unsaved_messages_count() == n);
    }
    assert!(p.unsaved_messages_count == n as u32 + if ever && buffered { 1 } else { 0 });
    // C16: counters move by exactly what was stored
    assert!(p.messages_count.load(Ordering::SeqCst) == count_before + n as u64);
    assert!(p.size_bytes.load(Ordering::SeqCst) == size_before + 46 * n as u64);
    assert!(c.msgs_topic.load(Ordering::SeqCst) == n as u64);
    assert!(c.size_topic.load(Ordering::SeqCst) == 46 * n as u64);
    kani::cover!(ever && (buffered || !allow_buffered), "append after earlier messages");
    kani::cover!(!ever || rolled, "first append ever (or, in the after-roll shape, first append to the fresh segment)");
    core::mem::forget(p);
    core::mem::forget(st);
    core::mem::forget(cfg);
}

macro_rules! step_harness {
    ($name:ident, $n:expr, $b:expr) => { step_harness!($name, $n, $b, false); };
    ($name:ident, $n:expr, $b:expr, $r:expr) => {
        harness_sync! {
            #[kani::stub(crate::verif::sync::streaming::segments::segment::Segment::persist_messages, crate::verif::su::cut_persist_messages)]
            #[kani::stub(crate::verif::sync::streaming::partitions::partition::Partition::add_persisted_segment, crate::verif::su::cut_add_persisted_segment)]
            #[kani::stub(crate::verif::sync::streaming::segments::segment::Segment::is_full, crate::verif::su::summary_is_full_open)]
            #[kani::unwind(5)]
            fn $name() { step_shape($n, $b, $r) }
        }
    };
}
step_harness!(c01_append_step_n1, 1, false);
step_harness!(c01_append_step_n1_buffered, 1, true);
step_harness!(c01_append_step_n2, 2, false);
step_harness!(c01_append_step_after_roll_n2, 2, false, true);
step_harness!(c01_append_step_n3_t, 3, false);

// ---- C16: the same step, registered under C16 for its counter assertions (partition, topic and
// stream message counts and sizes move by exactly what was stored) ----
step_harness!(c16_append_moves_counters_n1, 1, false);
step_harness!(c16_append_moves_counters_n2, 2, false);

// Segment::get_messages_count equals the number of messages the segment holds, from any start offset
harness_sync! { #[kani::unwind(5)] fn c16_segment_message_count_matches_content() {
    typed_arc!(cfg: crate::configs::system::SystemConfig = system_config());
    let start: u64 = kani::any();
    kani::assume(start < OFF_MAX);
    let mut seg = segment(start, cfg.clone());
    assert!(seg.get_messages_count() == 0); // empty segment, whatever its start offset
    let n: usize = kani::any();
    kani::assume(n >= 1 && n <= 3);
    let b1 = [retained(start, 1, 1, vec![0])];
    let b2 = [retained(start, 1, 1, vec![0]), retained(start + 1, 2, 2, vec![1])];
    let b3 = [retained(start, 1, 1, vec![0]), retained(start + 1, 2, 2, vec![1]), retained(start + 2, 3, 3, vec![2])];
    let r = match n {
        1 => seg.append_batch(IggyByteSize::from(46u64), 1, &b1),
        2 => seg.append_batch(IggyByteSize::from(92u64), 2, &b2),
        _ => seg.append_batch(IggyByteSize::from(138u64), 3, &b3),
    };
    assert!(r.is_ok());
    assert!(seg.get_messages_count() == n as u64, "reported message count differs from what the segment holds");
    assert!(seg.size_bytes.as_bytes_u64() == 46 * n as u64);
    assert!(seg.messages_count_of_parent_partition.load(Ordering::SeqCst) == n as u64);
    assert!(seg.size_of_parent_partition.load(Ordering::SeqCst) == 46 * n as u64);
    kani::cover!(n == 3 && start > 0, "three messages, later segment");
    core::mem::forget(seg);
    core::mem::forget(cfg);
} }
