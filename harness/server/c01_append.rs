//! @property C01 C16
//! @enc Partition::append_messages, Segment::append_batch, BatchAccumulator::{new,append}, RetainedMessage::new, Partition::create, Segment::create
//! @bounds one append step of n in {1,2,3} messages (payload 1 byte) from an ARBITRARY pre-state: current_offset < 2^40 symbolic, should_increment_offset symbolic, open last segment with symbolic start offset, accumulator empty or holding one earlier message; save threshold above n (no persist in this step)
//! @out concurrent appenders; u64 wrap-around of offsets
use super::util::*;
use crate::streaming::batching::batch_accumulator::BatchAccumulator;
use iggy::utils::byte_size::IggyByteSize;
use std::sync::atomic::Ordering;
use std::sync::Arc;

const OFF_MAX: u64 = 1 << 40;

/// Inductive step: from any state satisfying the partition invariant, an accepted batch of n
/// messages gets offsets cur+1.. (or 0.. when the partition never held a message), in order, and the
/// invariant holds again.
fn step(n: usize) {
    let cfg = Arc::new(system_config());
    let st = storage(&cfg);
    let c = counters();
    let mut p = new_partition(&cfg, &st, &c, true, false);

    // ---- arbitrary valid pre-state ----
    let ever: bool = kani::any();
    let cur: u64 = kani::any();
    let start: u64 = kani::any();
    kani::assume(cur < OFF_MAX && start <= cur);
    let buffered: bool = kani::any(); // one earlier message still in the accumulator
    if ever {
        p.should_increment_offset = true;
        p.current_offset = cur;
        let seg = p.segments.last_mut().unwrap();
        seg.start_offset = start;
        seg.current_offset = cur;
        seg.size_bytes = IggyByteSize::from(100u64);
        if buffered {
            let mut acc = BatchAccumulator::new(cur, 10);
            acc.append(IggyByteSize::from(42u64), &[retained(cur, 5, 99, vec![9])]);
            seg.unsaved_messages = Some(acc);
            p.unsaved_messages_count = 1;
        }
        p.messages_count.store(cur - start + 1, Ordering::SeqCst);
    } else {
        kani::assume(cur == 0 && start == 0 && !buffered);
    }
    let count_before = p.messages_count.load(Ordering::SeqCst);
    let size_before = p.size_bytes.load(Ordering::SeqCst);

    // ---- the step ----
    let r = match n {
        1 => {
            typed_msg_vec!(msgs, message(1, vec![0]));
            let info = batch_info(&msgs);
            block_on(p.append_messages(info, msgs, None))
        }
        2 => {
            typed_msg_vec!(msgs, message(1, vec![0]), message(2, vec![1]));
            let info = batch_info(&msgs);
            block_on(p.append_messages(info, msgs, None))
        }
        _ => {
            typed_msg_vec!(msgs, message(1, vec![0]), message(2, vec![1]), message(3, vec![2]));
            let info = batch_info(&msgs);
            block_on(p.append_messages(info, msgs, None))
        }
    };
    assert!(r.is_ok());

    // ---- post-conditions ----
    let base = if ever { cur + 1 } else { 0 };
    assert!(p.should_increment_offset);
    assert!(p.current_offset == base + n as u64 - 1);
    let seg = p.segments.last().unwrap();
    assert!(seg.current_offset == p.current_offset);
    assert!(!seg.is_closed);
    let acc = seg.unsaved_messages.as_ref().unwrap();
    assert!(acc.batch_max_offset() == p.current_offset);
    let got = acc.get_messages_by_offset(base, base + n as u64 - 1);
    assert!(got.len() == n);
    let mut i = 0;
    while i < n {
        assert!(got[i].offset == base + i as u64); // consecutive, in send order
        assert!(got[i].id == i as u128 + 1);
        i += 1;
    }
    if ever && buffered {
        assert!(acc.batch_base_offset() == cur);
        assert!(acc.unsaved_messages_count() == n + 1);
    } else {
        assert!(acc.batch_base_offset() == base);
        assert!(acc.unsaved_messages_count() == n);
    }
    assert!(p.unsaved_messages_count == n as u32 + if ever && buffered { 1 } else { 0 });
    // C16: counters move by exactly what was stored
    assert!(p.messages_count.load(Ordering::SeqCst) == count_before + n as u64);
    assert!(p.size_bytes.load(Ordering::SeqCst) == size_before + 42 * n as u64);
    assert!(c.msgs_topic.load(Ordering::SeqCst) == p.messages_count.load(Ordering::SeqCst) - count_before);
    assert!(c.size_topic.load(Ordering::SeqCst) == 42 * n as u64);
    kani::cover!(ever && buffered, "append after earlier buffered message");
    kani::cover!(!ever, "first append ever");
    core::mem::forget(got);
    core::mem::forget(p);
}

harness_stream! { #[kani::unwind(10)] fn c01_append_step_n1() { step(1) } }
harness_stream! { #[kani::unwind(10)] fn c01_append_step_n2() { step(2) } }
harness_stream! { #[kani::unwind(10)] fn c01_append_step_n3() { step(3) } }
