//! @property C04
//! @enc SegmentLogReader::{new, read_next_batch, file_size} (de-asynced twin) on the model file system
//! @bounds one log file holding two stored batches (24-byte header + 8 payload bytes each; base offset, last-offset delta, max timestamp and all payload bytes symbolic; the length field is what the writer wrote: 8); the surviving / published size is ANY value in [0, 64] - every torn length of either record, header or payload; ONE step of the scan loops (read_next_batch) at position 0 and at position 32 (the positions the loops reach: they advance by the returned byte count, which the step asserts to be the record length, and stop at None)
//! @stub SegmentLogReader::read_at -> same contract (len bytes of the file at offset, short file = error) with the buffer in a typed static arena instead of a heap Vec (hooks/log_reader.rs)
//! @model tokio::fs / std::fs -> model FS (384-byte files); spawn_blocking -> inline call
//! @assume the length field of a record whose header survived completely is the one that was written (a torn write is a prefix of the intended bytes)
//! @out the scan loops themselves (advance by bytes_read, stop at None: read, not decided - through them the second position is extracted from a niche-encoded Result<Option<..>> that CBMC does not constant-fold, > 40 GB; wip/c04_log_scan.rs); index file, consumer-offset file and state-log tails; segment / partition load (`load_from_disk`, `storage::load`) - not encodable within reach (DESIGN.md 0.3); payloads longer than 8 bytes; more than three records
//! C04-H2 (log tail): a partially written trailing record is ignored - never served as data, never a
//! panic - and everything before it is served unchanged; the reader never looks past the size it was
//! given even when the file already holds more bytes.
use crate::verif::sync::streaming::segments::verif_hook::SegmentLogReader;
use iggy::verif_model::fs_sync as mfs;
use std::sync::atomic::{AtomicU64, Ordering};
use std::sync::Arc;

macro_rules! tail_harness {
    ($(#[$m:meta])* fn $name:ident() $body:block) => {
        harness_sync! {
            #[kani::stub(crate::verif::sync::streaming::segments::logs::log_reader::SegmentLogReader::read_at, crate::verif::sync::streaming::segments::logs::log_reader::verif_hook::read_at_stub)]
            $(#[$m])*
            fn $name() $body
        }
    };
}

const REC: usize = 32;
const PATH: &str = "/l/0.log";

struct Rec {
    base: u64,
    delta: u32,
    ts: u64,
    payload: [u8; 8],
}

fn any_rec() -> Rec {
    Rec { base: kani::any(), delta: kani::any(), ts: kani::any(), payload: kani::any() }
}

fn put(idx: usize, at: usize, r: &Rec) {
    let mut b = [0u8; REC];
    b[0..8].copy_from_slice(&r.base.to_le_bytes());
    b[8..12].copy_from_slice(&8u32.to_le_bytes());
    b[12..16].copy_from_slice(&r.delta.to_le_bytes());
    b[16..24].copy_from_slice(&r.ts.to_le_bytes());
    b[24..32].copy_from_slice(&r.payload);
    mfs::fs().write_at(idx, at, &b).unwrap();
}

fn served_is(b: &crate::verif::sync::streaming::batching::message_batch::RetainedMessageBatch, r: &Rec) -> bool {
    b.base_offset == r.base
        && b.last_offset_delta == r.delta
        && b.max_timestamp == r.ts
        && b.bytes.len() == 8
        && b.bytes[0] == r.payload[0] && b.bytes[1] == r.payload[1] && b.bytes[2] == r.payload[2] && b.bytes[3] == r.payload[3]
        && b.bytes[4] == r.payload[4] && b.bytes[5] == r.payload[5] && b.bytes[6] == r.payload[6] && b.bytes[7] == r.payload[7]
}

/// One step of the scan loops (`read_next_batch` at a position the loop can be at, `offset < size`).
/// `after_crash`: the file itself is cut at the symbolic length (restart after a crash in the middle of
/// a write: the reader takes the size from the file's metadata).
/// `!after_crash`: the file holds both records but the size handed to the reader is the symbolic value
/// (a writer that has written but not yet published; the reader must trust the size, not the file).
fn step(second: bool, after_crash: bool) {
    mfs::strict(true); // no I/O error is injected: a read past the end of the file is a failure
    let idx = mfs::fs().create(PATH).unwrap();
    let r0 = any_rec();
    let r1 = any_rec();
    put(idx, 0, &r0);
    put(idx, REC, &r1);
    let s: usize = kani::any();
    kani::assume(s <= 2 * REC);
    let size = Arc::new(AtomicU64::new(0));
    // the real constructor publishes the size it finds on disk ...
    if after_crash {
        mfs::fs().files[idx].len = s;
    }
    let opened = SegmentLogReader::new(PATH, size.clone()).unwrap();
    assert!(size.load(Ordering::Acquire) == if after_crash { s as u64 } else { (2 * REC) as u64 }, "the reader starts from the size of the file on disk");
    core::mem::forget(opened);
    if !after_crash {
        size.store(s as u64, Ordering::Release);
    }
    // ... and the step runs on a reader with the same three fields whose file handle is typed (hooks/log_reader.rs)
    let inner = core::mem::ManuallyDrop::new(crate::verif::TypedArcInner {
        strong: core::sync::atomic::AtomicUsize::new(2),
        weak: core::sync::atomic::AtomicUsize::new(1),
        data: SegmentLogReader::verif_open_for_read(PATH),
    });
    let reader = SegmentLogReader::verif_over(&inner, PATH, size.clone());
    let pos = if second { REC } else { 0 };
    kani::assume(pos < s); // the loops' condition: `offset < file_size`
    let r = reader.verif_read_next_batch(pos as u64, size.load(Ordering::Acquire));
    assert!(r.is_ok(), "a torn tail must not be an error that stops the restart");
    match r.unwrap() {
        Some((b, n)) => {
            assert!(pos + REC <= s, "a record that is not completely inside the size was served as data");
            assert!(n == REC as u64, "the scan must advance by exactly the record served");
            assert!(served_is(&b, if second { &r1 } else { &r0 }), "a complete record is served unchanged");
            core::mem::forget(b);
        }
        None => assert!(pos + REC > s, "a completely stored record was not served"),
    }
    kani::cover!(s - pos < 24, "torn inside a header");
    kani::cover!(s - pos >= 24 && s - pos < REC, "torn inside a payload");
    kani::cover!(s - pos >= REC, "complete record");
    core::mem::forget(reader);
}

tail_harness! { #[kani::unwind(4)] fn c04_log_step_after_crash_second_record() { step(true, true) } }
tail_harness! { #[kani::unwind(4)] fn c04_log_step_published_size_second_record() { step(true, false) } }
tail_harness! { #[kani::unwind(4)] fn c04_log_step_after_crash_first_record() { step(false, true) } }
tail_harness! { #[kani::unwind(4)] fn c04_log_step_published_size_first_record() { step(false, false) } }
