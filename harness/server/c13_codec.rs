//! @property C13
//! @enc BytesSerializable::{to_bytes, from_bytes} of Identifier, PollingStrategy, Partitioning, PollMessages, StoreConsumerOffset, GetConsumerOffset, CreateStream, DeleteStream, CreateConsumerGroup, JoinConsumerGroup, CreatePartitions; PollingKind/ConsumerKind/IdKind/PartitioningKind code maps
//! @bounds every scalar field symbolic (u32/u64/bool, all enum arms); identifiers of a concrete kind per harness (numeric with any u32 >= 1, or a 1- or 2-byte name with symbolic bytes; both kinds occur in every multi-identifier command); optional fields present/absent; names of length 2 with symbolic bytes (ASCII letters); partition ids >= 1 when present (0 is the wire encoding of "absent")
//! @assume quick tier = the round trips that finish within the cap (named identifier, polling strategy incl. malformed frames, the three partitioning kinds, CreateStream/DeleteStream); the commands carrying several identifiers and numeric identifiers are thorough-tier only (CBMC runs out of memory on them in this setup)
//! @out HTTP/JSON; SendMessages with user headers (hash-map iteration order); responses (mapper.rs) - not yet encoded; malformed frames only for Identifier/PollingStrategy/Partitioning (decoder must return Err or a value that re-encodes to the same bytes)
use super::util::static_bytes;
use bytes::Bytes;
use iggy::bytes_serializable::BytesSerializable;
use iggy::consumer::{Consumer, ConsumerKind};
use iggy::consumer_groups::create_consumer_group::CreateConsumerGroup;
use iggy::consumer_groups::join_consumer_group::JoinConsumerGroup;
use iggy::consumer_offsets::get_consumer_offset::GetConsumerOffset;
use iggy::consumer_offsets::store_consumer_offset::StoreConsumerOffset;
use iggy::identifier::{IdKind, Identifier};
use iggy::messages::poll_messages::{PollMessages, PollingKind, PollingStrategy};
use iggy::messages::send_messages::{Partitioning, PartitioningKind};
use iggy::partitions::create_partitions::CreatePartitions;
use iggy::streams::create_stream::CreateStream;
use iggy::streams::delete_stream::DeleteStream;

/// identifier of a CONCRETE kind with symbolic value (a symbolic choice of kind merges two wire
/// lengths, and the decoder then allocates `to_vec()` of symbolic size: CBMC > 40 GB)
fn ident(named: bool) -> Identifier {
    if !named {
        let v: u32 = kani::any();
        kani::assume(v >= 1);
        Identifier::numeric(v).unwrap()
    } else {
        let a: u8 = kani::any();
        let b: u8 = kani::any();
        kani::assume(a >= b'a' && a <= b'z' && b >= b'a' && b <= b'z');
        Identifier { kind: IdKind::String, length: 2, value: vec![a, b] }
    }
}

fn any_name() -> String {
    // concrete length (symbolic lengths make every later copy a symbolic-size allocation: > 40 GB)
    let a: u8 = kani::any();
    let b: u8 = kani::any();
    kani::assume(a >= b'a' && a <= b'z' && b >= b'a' && b <= b'z');
    unsafe { String::from_utf8_unchecked(vec![a, b]) }
}

fn consumer(named: bool) -> Consumer {
    Consumer { kind: if kani::any() { ConsumerKind::Consumer } else { ConsumerKind::ConsumerGroup }, id: ident(named) }
}

fn any_partition_id() -> Option<u32> {
    if kani::any() {
        let p: u32 = kani::any();
        kani::assume(p >= 1);
        Some(p)
    } else {
        None
    }
}

fn any_strategy() -> PollingStrategy {
    let k: u8 = kani::any();
    let kind = match k % 5 {
        0 => PollingKind::Offset,
        1 => PollingKind::Timestamp,
        2 => PollingKind::First,
        3 => PollingKind::Last,
        _ => PollingKind::Next,
    };
    PollingStrategy { kind, value: kani::any() }
}

/// the receiver sees a frame it did not allocate: re-home the bytes in a static buffer
fn wire(b: Bytes) -> Bytes {
    static_bytes(b.to_vec())
}

fn identifier_roundtrip(named: bool) {
    let x = ident(named);
    let y = Identifier::from_bytes(wire(x.to_bytes()));
    assert!(y.is_ok());
    assert!(y.unwrap() == x);
    kani::cover!(true, "reached");
}
harness! { #[kani::unwind(8)] fn c13_identifier_numeric_roundtrip_t() { identifier_roundtrip(false) } }
harness! { #[kani::unwind(8)] fn c13_identifier_named_roundtrip() { identifier_roundtrip(true) } }
// boundary length: the shortest name the SDK can build (1 byte), as the last field of a frame
harness! { #[kani::unwind(8)] fn c13_identifier_one_byte_name_roundtrip() {
    let a: u8 = kani::any();
    kani::assume(a >= b'a' && a <= b'z');
    let x = Identifier { kind: IdKind::String, length: 1, value: vec![a] };
    let y = Identifier::from_bytes(wire(x.to_bytes()));
    assert!(y.is_ok(), "the shortest named identifier the SDK can send is rejected by the decoder");
    assert!(y.unwrap() == x);
    let d = DeleteStream { stream_id: Identifier { kind: IdKind::String, length: 1, value: vec![a] } };
    let e = DeleteStream::from_bytes(wire(d.to_bytes()));
    assert!(e.is_ok() && e.unwrap() == d);
    kani::cover!(a == b'q', "some letter");
} }

harness! { #[kani::unwind(12)] fn c13_polling_strategy_roundtrip_and_malformed() {
    let x = any_strategy();
    let y = PollingStrategy::from_bytes(wire(x.to_bytes())).unwrap();
    assert!(y == x);
    // arbitrary 9-byte frame: error, or a value that re-encodes to the same bytes
    let raw: [u8; 9] = kani::any();
    if let Ok(s) = PollingStrategy::from_bytes(static_bytes(raw.to_vec())) {
        let back = s.to_bytes();
        let mut i = 0;
        while i < 9 { assert!(back[i] == raw[i]); i += 1; }
    }
    kani::cover!(x.kind == PollingKind::Next, "next");
} }

fn partitioning_roundtrip(k: u8) {
    let x = match k {
        0 => Partitioning::balanced(),
        1 => Partitioning::partition_id(kani::any()),
        _ => {
            let key: [u8; 3] = kani::any();
            Partitioning::messages_key(&key).unwrap()
        }
    };
    // inside a SendMessages frame the partitioning is followed by the messages: the decoder is handed
    // the rest of the frame (it rejects a slice shorter than 3 bytes), so one trailing byte is added
    let mut frame = x.to_bytes().to_vec();
    frame.push(0xAA);
    let y = Partitioning::from_bytes(static_bytes(frame)).unwrap();
    assert!(y == x);
    kani::cover!(true, "reached");
}
harness! { #[kani::unwind(8)] fn c13_partitioning_balanced_roundtrip() { partitioning_roundtrip(0) } }
harness! { #[kani::unwind(8)] fn c13_partitioning_partition_id_roundtrip() { partitioning_roundtrip(1) } }
harness! { #[kani::unwind(8)] fn c13_partitioning_key_roundtrip() { partitioning_roundtrip(2) } }

harness! { #[kani::unwind(8)] fn c13_poll_messages_roundtrip_t() {
    let x = PollMessages {
        consumer: consumer(false),
        stream_id: ident(true),
        topic_id: ident(false),
        partition_id: any_partition_id(),
        strategy: any_strategy(),
        count: kani::any(),
        auto_commit: kani::any(),
    };
    let y = PollMessages::from_bytes(wire(x.to_bytes()));
    assert!(y.is_ok());
    assert!(y.unwrap() == x);
    kani::cover!(x.partition_id.is_none() && x.auto_commit, "no partition, auto commit");
} }

harness! { #[kani::unwind(8)] fn c13_store_consumer_offset_roundtrip_t() {
    let x = StoreConsumerOffset {
        consumer: consumer(false),
        stream_id: ident(true),
        topic_id: ident(false),
        partition_id: any_partition_id(),
        offset: kani::any(),
    };
    let y = StoreConsumerOffset::from_bytes(wire(x.to_bytes()));
    assert!(y.is_ok());
    assert!(y.unwrap() == x);
    kani::cover!(x.consumer.kind == ConsumerKind::ConsumerGroup, "group");
} }

harness! { #[kani::unwind(8)] fn c13_get_consumer_offset_roundtrip_t() {
    let x = GetConsumerOffset {
        consumer: consumer(false),
        stream_id: ident(true),
        topic_id: ident(false),
        partition_id: any_partition_id(),
    };
    let y = GetConsumerOffset::from_bytes(wire(x.to_bytes()));
    assert!(y.is_ok());
    assert!(y.unwrap() == x);
    kani::cover!(x.partition_id.is_some(), "partition named");
} }

harness! { #[kani::unwind(8)] fn c13_stream_commands_roundtrip() {
    let sid: Option<u32> = if kani::any() { let v: u32 = kani::any(); kani::assume(v >= 1); Some(v) } else { None };
    let x = CreateStream { stream_id: sid, name: any_name() };
    let y = CreateStream::from_bytes(wire(x.to_bytes()));
    assert!(y.is_ok());
    assert!(y.unwrap() == x);
    let d = DeleteStream { stream_id: ident(true) };
    assert!(DeleteStream::from_bytes(wire(d.to_bytes())).unwrap() == d);
    kani::cover!(x.stream_id.is_none(), "server-assigned id");
} }

harness! { #[kani::unwind(8)] fn c13_group_and_partition_commands_roundtrip_t() {
    let gid: Option<u32> = if kani::any() { let v: u32 = kani::any(); kani::assume(v >= 1); Some(v) } else { None };
    let x = CreateConsumerGroup { stream_id: ident(false), topic_id: ident(true), group_id: gid, name: any_name() };
    let y = CreateConsumerGroup::from_bytes(wire(x.to_bytes()));
    assert!(y.is_ok());
    assert!(y.unwrap() == x);
    let j = JoinConsumerGroup { stream_id: ident(true), topic_id: ident(false), group_id: ident(false) };
    assert!(JoinConsumerGroup::from_bytes(wire(j.to_bytes())).unwrap() == j);
    let c: u32 = kani::any();
    kani::assume(c >= 1 && c <= 1000);
    let p = CreatePartitions { stream_id: ident(false), topic_id: ident(false), partitions_count: c };
    assert!(CreatePartitions::from_bytes(wire(p.to_bytes())).unwrap() == p);
    kani::cover!(x.group_id.is_none(), "server-assigned group id");
} }
