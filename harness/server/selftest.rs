//! @property C99
//! Self-tests of the stub set (not a property of iggy): run by `./check setup` as `./check C99`.
use super::util::*;
use iggy::utils::timestamp::IggyTimestamp;
harness! { #[kani::unwind(4)] fn c99_probe_now() {
    let t = IggyTimestamp::now();
    let m = t.as_micros();
    assert!(m < (1u64<<52));
    let t2 = IggyTimestamp::now();
    assert!(t2.as_micros() >= m);
    kani::cover!(t2.as_micros() > m + 5);
} }
harness! { fn c99_selftest_time_repr() {
    let x: u64 = kani::any();
    kani::assume(x < (1u64<<52));
    let t = IggyTimestamp::from(x);
    assert!(t.as_micros() == x);
    kani::cover!(x == 77);
} }
harness! { fn c99_trivial() {
    let x: u64 = kani::any();
    assert!(x / 2 <= x);
} }
