//! Stub bodies used by every harness (DESIGN.md §2.3). Each one replaces a piece of the
//! *environment* (logging, formatting, clock, randomness) — never iggy logic.

use iggy::utils::timestamp::IggyTimestamp;

pub fn format_stub(_args: core::fmt::Arguments<'_>) -> String {
    String::new()
}

pub fn callsite_register_stub(
    _cs: &'static tracing::callsite::DefaultCallsite,
) -> tracing::subscriber::Interest {
    tracing::subscriber::Interest::never()
}

pub fn is_enabled_stub(
    _meta: &tracing::Metadata<'static>,
    _interest: tracing::subscriber::Interest,
) -> bool {
    false
}

pub fn event_dispatch_stub<'a>(
    _metadata: &'static tracing::Metadata<'static>,
    _fields: &'a tracing::field::ValueSet<'_>,
) where
    'a: 'a,
{
}

pub fn log_max_level_stub() -> tracing::log::LevelFilter {
    tracing::log::LevelFilter::Off
}

pub fn tracing_log_stub(
    _meta: &tracing::Metadata<'static>,
    _logger: &'static dyn tracing::log::Log,
    _log_meta: tracing::log::Metadata<'_>,
    _values: &tracing::field::ValueSet<'_>,
) {
}

/// Time representation used under Kani: the instant `m` microseconds after the epoch is stored as
/// `UNIX_EPOCH + Duration::new(m, 0)` (micros in the seconds field). `From<u64>` and `as_micros` are
/// stubbed consistently, so iggy code sees the same micros value it would natively, while CBMC is
/// spared std's 128-bit `Duration::as_micros` multiplication and `/ 1_000_000`, which do not
/// terminate under bit-blasting (probe: > 420 s for one conversion). The real conversion pair is
/// exercised natively by the repository's own tests and by concrete playback.
pub fn ts_from_stub(m: u64) -> IggyTimestamp {
    IggyTimestamp::from(std::time::UNIX_EPOCH + core::time::Duration::new(m, 0))
}

#[repr(C)]
struct RawTimespec {
    secs: i64,
    nanos: u32,
}

pub fn ts_as_micros_stub(ts: &IggyTimestamp) -> u64 {
    // SAFETY: IggyTimestamp is a newtype over SystemTime = Timespec { tv_sec: i64, tv_nsec: u32 };
    // the layout assumption is verified by harness `selftest_time_repr`.
    let raw: RawTimespec = unsafe { core::mem::transmute_copy(ts) };
    raw.secs as u64
}

pub fn random_state_stub() -> ahash::RandomState {
    ahash::RandomState::with_seeds(1, 2, 3, 4)
}

pub fn available_parallelism_stub() -> std::io::Result<std::num::NonZeroUsize> {
    Ok(std::num::NonZeroUsize::new(1).unwrap())
}

/// `BytesMut::freeze` on a `len == cap` vector yields a "promotable" `Bytes` whose vtable plays
/// pointer-tag tricks that CBMC cannot follow cheaply (DESIGN F8). Content-equal replacement.
pub fn freeze_stub(b: bytes::BytesMut) -> bytes::Bytes {
    let v: Vec<u8> = b.as_ref().to_vec();
    core::mem::forget(b);
    bytes::Bytes::from_static(Box::leak(v.into_boxed_slice()))
}

/// Bit-serial CRC-32/IEEE — the same function as `crc32fast::hash` (checked natively by
/// `./check setup`); `crc32fast` itself does CPU feature detection through inline asm.
pub fn crc32_stub(data: &[u8]) -> u32 {
    let mut crc: u32 = 0xFFFF_FFFF;
    let mut i = 0;
    while i < data.len() {
        crc ^= data[i] as u32;
        let mut k = 0;
        while k < 8 {
            let mask = (!(crc & 1)).wrapping_add(1);
            crc = (crc >> 1) ^ (0xEDB8_8320 & mask);
            k += 1;
        }
        i += 1;
    }
    !crc
}

/// `format!` switch. Off (default): every `format!` yields the empty string — used for log and
/// error-context text, which no property depends on. On: the real formatting machinery runs;
/// harnesses switch it on only around path construction with concrete arguments.
pub static mut REAL_FORMAT: bool = false;

pub fn set_real_format(on: bool) {
    unsafe { REAL_FORMAT = on }
}

pub fn format_switch_stub(args: core::fmt::Arguments<'_>) -> String {
    if unsafe { REAL_FORMAT } {
        let mut s = String::new();
        let _ = core::fmt::Write::write_fmt(&mut s, args);
        s
    } else {
        String::new()
    }
}

// ------------------------------------------------------------------------------------------------
// Path producers. The repository builds every path with `format!`; std formatting is intractable
// for CBMC (see model/paths.rs), so the producers are replaced by builders with the same
// structure (directory nesting, one distinct name per id / start offset) and a cheap encoding.
// ------------------------------------------------------------------------------------------------
use crate::configs::system::SystemConfig;
use crate::streaming::partitions::partition::ConsumerOffset;
use iggy::consumer::ConsumerKind;

fn nib(x: u64, k: u32) -> u8 {
    b'a' + ((x >> (4 * k)) & 0xF) as u8
}
pub fn enc32(x: u32) -> [u8; 8] {
    let x = x as u64;
    [nib(x, 7), nib(x, 6), nib(x, 5), nib(x, 4), nib(x, 3), nib(x, 2), nib(x, 1), nib(x, 0)]
}
/// ids inside directory names: 4 nibbles (harness ids are small; larger ids are reported)
pub fn enc16(x: u32) -> [u8; 4] {
    assert!(x < 65536, "path stub: id >= 65536 is outside the harness bound");
    let x = x as u64;
    [nib(x, 3), nib(x, 2), nib(x, 1), nib(x, 0)]
}
pub fn enc64(x: u64) -> [u8; 16] {
    [nib(x, 15), nib(x, 14), nib(x, 13), nib(x, 12), nib(x, 11), nib(x, 10), nib(x, 9), nib(x, 8),
     nib(x, 7), nib(x, 6), nib(x, 5), nib(x, 4), nib(x, 3), nib(x, 2), nib(x, 1), nib(x, 0)]
}
/// one allocation, one memcpy per part, no loop (so that harness unwind bounds stay small)
pub fn string_of(parts: &[&[u8]]) -> String {
    let mut v: Vec<u8> = Vec::with_capacity(64);
    let n = parts.len();
    assert!(n <= 8);
    if n > 0 { v.extend_from_slice(parts[0]); }
    if n > 1 { v.extend_from_slice(parts[1]); }
    if n > 2 { v.extend_from_slice(parts[2]); }
    if n > 3 { v.extend_from_slice(parts[3]); }
    if n > 4 { v.extend_from_slice(parts[4]); }
    if n > 5 { v.extend_from_slice(parts[5]); }
    if n > 6 { v.extend_from_slice(parts[6]); }
    if n > 7 { v.extend_from_slice(parts[7]); }
    unsafe { String::from_utf8_unchecked(v) }
}

pub fn partition_path_stub(_c: &SystemConfig, stream_id: u32, topic_id: u32, partition_id: u32) -> String {
    string_of(&[b"s", &enc16(stream_id), b"t", &enc16(topic_id), b"p", &enc16(partition_id)])
}
pub fn offsets_path_stub(_c: &SystemConfig, stream_id: u32, topic_id: u32, partition_id: u32) -> String {
    string_of(&[b"s", &enc16(stream_id), b"t", &enc16(topic_id), b"p", &enc16(partition_id), b"/o"])
}
pub fn consumer_offsets_path_stub(_c: &SystemConfig, stream_id: u32, topic_id: u32, partition_id: u32) -> String {
    string_of(&[b"s", &enc16(stream_id), b"t", &enc16(topic_id), b"p", &enc16(partition_id), b"/o/c"])
}
pub fn consumer_group_offsets_path_stub(_c: &SystemConfig, stream_id: u32, topic_id: u32, partition_id: u32) -> String {
    string_of(&[b"s", &enc16(stream_id), b"t", &enc16(topic_id), b"p", &enc16(partition_id), b"/o/g"])
}
pub fn segment_path_stub(_c: &SystemConfig, stream_id: u32, topic_id: u32, partition_id: u32, start_offset: u64) -> String {
    string_of(&[b"s", &enc16(stream_id), b"t", &enc16(topic_id), b"p", &enc16(partition_id), b"/", &enc64(start_offset)])
}
pub fn log_path_stub(path: &str) -> String {
    string_of(&[path.as_bytes(), b".log"])
}
pub fn index_path_stub(path: &str) -> String {
    string_of(&[path.as_bytes(), b".index"])
}
pub fn consumer_offset_new_stub(kind: ConsumerKind, consumer_id: u32, offset: u64, path: &str) -> ConsumerOffset {
    let s = string_of(&[path.as_bytes(), b"/", &enc32(consumer_id)]);
    ConsumerOffset { kind, consumer_id, offset, path: std::sync::Arc::new(s) }
}
pub fn path_exists_stub(p: &std::path::Path) -> bool {
    // a harness uses either the async model FS or its sync counterpart (twin tree); the other is empty
    iggy::verif_model::fs::exists_sync(p) || iggy::verif_model::fs_sync::exists_sync(p)
}

// ------------------------------------------------------------------------------------------------
// Streaming-harness stubs (`harness_stream!`): messages in these harnesses carry no user headers
// and at most 4 payload bytes; what the checksum function *is* does not matter to C01..C04/C16/C18
// (only that the stored value is returned unchanged), so a loop-free stand-in is used.
// ------------------------------------------------------------------------------------------------
pub fn cheap_checksum_stub(data: &[u8]) -> u32 {
    let n = data.len();
    let mut v = (n as u32).wrapping_mul(0x9E37_79B1);
    if n > 0 { v ^= data[0] as u32; }
    if n > 1 { v ^= (data[1] as u32) << 8; }
    if n > 2 { v ^= (data[2] as u32) << 16; }
    if n > 3 { v ^= (data[3] as u32) << 24; }
    v
}

pub fn headers_to_bytes_absent_stub(
    _h: &std::collections::HashMap<iggy::models::header::HeaderKey, iggy::models::header::HeaderValue>,
) -> bytes::Bytes {
    panic!("harness bound: messages carry no user headers");
}

pub fn headers_size_absent_stub(
    h: &Option<std::collections::HashMap<iggy::models::header::HeaderKey, iggy::models::header::HeaderValue>>,
) -> iggy::utils::byte_size::IggyByteSize {
    if h.is_some() {
        panic!("harness bound: messages carry no user headers");
    }
    iggy::utils::byte_size::IggyByteSize::from(4u64)
}

// ------------------------------------------------------------------------------------------------
// "Cut" stubs: replace a callee that the harness's scenario must not reach by a panic. If the code
// under test does reach it, the panic is reported as a failed check (nothing is hidden); if not,
// CBMC is spared the exploration of the callee behind a branch it cannot fold.
// ------------------------------------------------------------------------------------------------

pub fn cut_materialize(_a: &mut crate::streaming::batching::batch_accumulator::BatchAccumulator) -> crate::streaming::batching::message_batch::RetainedMessageBatch {
    panic!("cut: the save path (BatchAccumulator::materialize_batch_and_update_state) must not be reached in this harness");
}
