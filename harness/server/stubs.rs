//! Stub bodies used by every harness (DESIGN.md §2.3). Each one replaces a piece of the
//! *environment* (logging, formatting, clock, randomness) — never iggy logic.

use iggy::utils::timestamp::IggyTimestamp;

pub fn format_stub(_args: core::fmt::Arguments<'_>) -> String {
    String::new()
}

pub fn callsite_register_stub(
    _cs: &'static tracing::callsite::DefaultCallsite,
) -> tracing::subscriber::Interest {
    tracing::subscriber::Interest::never()
}

pub fn is_enabled_stub(
    _meta: &tracing::Metadata<'static>,
    _interest: tracing::subscriber::Interest,
) -> bool {
    false
}

pub fn event_dispatch_stub<'a>(
    _metadata: &'static tracing::Metadata<'static>,
    _fields: &'a tracing::field::ValueSet<'_>,
) where
    'a: 'a,
{
}

pub fn log_max_level_stub() -> tracing::log::LevelFilter {
    tracing::log::LevelFilter::Off
}

pub fn tracing_log_stub(
    _meta: &tracing::Metadata<'static>,
    _logger: &'static dyn tracing::log::Log,
    _log_meta: tracing::log::Metadata<'_>,
    _values: &tracing::field::ValueSet<'_>,
) {
}

/// Time representation used under Kani: the instant `m` microseconds after the epoch is stored as
/// `UNIX_EPOCH + Duration::new(m, 0)` (micros in the seconds field). `From<u64>` and `as_micros` are
/// stubbed consistently, so iggy code sees the same micros value it would natively, while CBMC is
/// spared std's 128-bit `Duration::as_micros` multiplication and `/ 1_000_000`, which do not
/// terminate under bit-blasting (probe: > 420 s for one conversion). The real conversion pair is
/// exercised natively by the repository's own tests and by concrete playback.
pub fn ts_from_stub(m: u64) -> IggyTimestamp {
    IggyTimestamp::from(std::time::UNIX_EPOCH + core::time::Duration::new(m, 0))
}

#[repr(C)]
struct RawTimespec {
    secs: i64,
    nanos: u32,
}

pub fn ts_as_micros_stub(ts: &IggyTimestamp) -> u64 {
    // SAFETY: IggyTimestamp is a newtype over SystemTime = Timespec { tv_sec: i64, tv_nsec: u32 };
    // the layout assumption is verified by harness `selftest_time_repr`.
    let raw: RawTimespec = unsafe { core::mem::transmute_copy(ts) };
    raw.secs as u64
}

pub fn random_state_stub() -> ahash::RandomState {
    ahash::RandomState::with_seeds(1, 2, 3, 4)
}

pub fn available_parallelism_stub() -> std::io::Result<std::num::NonZeroUsize> {
    Ok(std::num::NonZeroUsize::new(1).unwrap())
}

/// `BytesMut::freeze` on a `len == cap` vector yields a "promotable" `Bytes` whose vtable plays
/// pointer-tag tricks that CBMC cannot follow cheaply (DESIGN F8). Content-equal replacement.
pub fn freeze_stub(b: bytes::BytesMut) -> bytes::Bytes {
    let v: Vec<u8> = b.as_ref().to_vec();
    core::mem::forget(b);
    bytes::Bytes::from_static(Box::leak(v.into_boxed_slice()))
}

/// Bit-serial CRC-32/IEEE — the same function as `crc32fast::hash` (checked natively by
/// `./check setup`); `crc32fast` itself does CPU feature detection through inline asm.
pub fn crc32_stub(data: &[u8]) -> u32 {
    let mut crc: u32 = 0xFFFF_FFFF;
    let mut i = 0;
    while i < data.len() {
        crc ^= data[i] as u32;
        let mut k = 0;
        while k < 8 {
            let mask = (!(crc & 1)).wrapping_add(1);
            crc = (crc >> 1) ^ (0xEDB8_8320 & mask);
            k += 1;
        }
        i += 1;
    }
    !crc
}
