//! @property C02
//! @enc RetainedMessage::{extend, try_from_bytes, get_size_bytes}, RetainedMessageBatchIterator::next (de-asynced twin; these are plain functions in the original too)
//! @bounds every scalar field symbolic (id u128, offset, timestamp u64, checksum u32); payload of 2 symbolic bytes; headers absent or 3 raw symbolic bytes; batches of 1 or 2 stored messages
//! @model bytes::BytesMut -> inline fixed-capacity buffer (model/bytesmut.rs)
//! @out payloads/headers longer than a few bytes; torn or foreign bytes (the decoders are only required to be exact on what `extend` wrote: that is the precondition their callers establish)
use super::util::static_bytes;
use crate::verif::sync::streaming::batching::iterator::IntoMessagesIterator;
use crate::verif::sync::streaming::batching::message_batch::RetainedMessageBatch;
use crate::verif::sync::streaming::models::messages::RetainedMessage;
use iggy::models::messages::MessageState;
use iggy::utils::byte_size::IggyByteSize;
use iggy::utils::sizeable::Sizeable;
use iggy::verif_model::bytesmut::BytesMut;

fn any_message(with_headers: bool) -> RetainedMessage {
    let p: [u8; 2] = kani::any();
    let h: [u8; 3] = kani::any();
    RetainedMessage {
        id: kani::any(),
        offset: kani::any(),
        timestamp: kani::any(),
        checksum: kani::any(),
        message_state: MessageState::Available,
        headers: if with_headers { Some(static_bytes(h.to_vec())) } else { None },
        payload: static_bytes(p.to_vec()),
    }
}

fn same(a: &RetainedMessage, b: &RetainedMessage) -> bool {
    a.id == b.id && a.offset == b.offset && a.timestamp == b.timestamp && a.checksum == b.checksum
        && a.message_state == b.message_state
        && a.payload.len() == b.payload.len() && a.payload[0] == b.payload[0] && a.payload[1] == b.payload[1]
        && match (&a.headers, &b.headers) {
            (None, None) => true,
            (Some(x), Some(y)) => x.len() == y.len() && x.len() == 3 && x[0] == y[0] && x[1] == y[1] && x[2] == y[2],
            _ => false,
        }
}

// what is written for one message is decoded to the same message, field by field
fn roundtrip(with_headers: bool) {
    let m = any_message(with_headers);
    let mut buf = BytesMut::new();
    m.extend(&mut buf);
    let size = m.get_size_bytes().as_bytes_u64() as usize;
    assert!(buf.len() == 4 + size, "the stored record is not 4 + get_size_bytes() long");
    // length prefix, then the record
    let len = u32::from_le_bytes([buf[0], buf[1], buf[2], buf[3]]) as usize;
    assert!(len == size);
    let all = buf.freeze();
    let d = RetainedMessage::try_from_bytes(all.slice(4..4 + len));
    assert!(d.is_ok());
    let d = d.unwrap();
    assert!(same(&m, &d), "a stored message is not returned bit-identical");
    kani::cover!(m.offset > 1000 && m.id != 0, "non-trivial message");
    core::mem::forget(m);
    core::mem::forget(d);
}
harness! { #[kani::unwind(5)] fn c02_message_record_roundtrip_no_headers() { roundtrip(false) } }
harness! { #[kani::unwind(5)] fn c02_message_record_roundtrip_with_headers() { roundtrip(true) } }

// a stored batch of two messages is iterated back as exactly those two, in order
harness! { #[kani::unwind(5)] fn c02_batch_iterator_yields_stored_messages_in_order() {
    let m1 = any_message(false);
    let m2 = any_message(true);
    let mut buf = BytesMut::new();
    m1.extend(&mut buf);
    m2.extend(&mut buf);
    let n = buf.len() as u64;
    let batch = RetainedMessageBatch::new(m1.offset, 1, m2.timestamp, IggyByteSize::from(n), buf.freeze());
    let mut it = (&batch).into_messages_iter();
    let a = it.next();
    let b = it.next();
    let c = it.next();
    assert!(a.is_some() && b.is_some() && c.is_none(), "the batch iterator did not yield exactly the two stored messages");
    let (a, b) = (a.unwrap(), b.unwrap());
    assert!(same(&m1, &a) && same(&m2, &b));
    kani::cover!(m1.offset != m2.offset, "distinct offsets");
    core::mem::forget(a); core::mem::forget(b); core::mem::forget(m1); core::mem::forget(m2); core::mem::forget(batch);
} }
