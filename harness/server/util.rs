//! Helpers shared by harnesses: literal-built configuration, message builders, block_on.

use crate::configs::resource_quota::MemoryResourceQuota;
use crate::configs::system::*;
use crate::streaming::models::messages::RetainedMessage;
use bytes::Bytes;
use iggy::compression::compression_algorithm::CompressionAlgorithm;
use iggy::confirmation::Confirmation;
use iggy::models::messages::MessageState;
use iggy::utils::byte_size::IggyByteSize;
use iggy::utils::duration::IggyDuration;
use iggy::utils::expiry::IggyExpiry;
use iggy::utils::topic_size::MaxTopicSize;
use std::sync::Arc;

/// `SystemConfig::default()` parses a dozen human-readable strings; harnesses build the value
/// literally instead (all fields are `pub`). Values = those of configs/server.toml unless a
/// harness overrides them.
pub fn system_config() -> SystemConfig {
    SystemConfig {
        path: String::from("d"),
        backup: BackupConfig {
            path: String::from("b"),
            compatibility: CompatibilityConfig { path: String::from("c") },
        },
        state: StateConfig {
            enforce_fsync: false,
            max_file_operation_retries: 1,
            retry_delay: IggyDuration::new(core::time::Duration::from_secs(1)),
        },
        runtime: RuntimeConfig { path: String::from("r") },
        logging: LoggingConfig {
            path: String::from("l"),
            level: String::from("info"),
            max_size: IggyByteSize::from(512_000_000u64),
            retention: IggyDuration::new(core::time::Duration::from_secs(7 * 86400)),
            sysinfo_print_interval: IggyDuration::new(core::time::Duration::from_secs(10)),
        },
        cache: CacheConfig { enabled: false, size: MemoryResourceQuota::Bytes(IggyByteSize::from(4_000_000_000u64)) },
        stream: StreamConfig { path: String::from("s") },
        topic: TopicConfig { path: String::from("t"), max_size: MaxTopicSize::Custom(IggyByteSize::from(10_000_000_000u64)), delete_oldest_segments: false },
        partition: PartitionConfig { path: String::from("p"), messages_required_to_save: 5000, enforce_fsync: false, validate_checksum: false },
        segment: SegmentConfig {
            size: IggyByteSize::from(1_000_000_000u64),
            cache_indexes: true,
            message_expiry: IggyExpiry::NeverExpire,
            archive_expired: false,
            server_confirmation: Confirmation::Wait,
        },
        encryption: EncryptionConfig { enabled: false, key: String::new() },
        compression: CompressionConfig { allow_override: false, default_algorithm: CompressionAlgorithm::None },
        message_deduplication: MessageDeduplicationConfig { enabled: false, max_entries: 1000, expiry: IggyDuration::new(core::time::Duration::from_secs(60)) },
        recovery: RecoveryConfig { recreate_missing_state: true },
    }
}

/// A static (non-promotable) `Bytes` with the given content (DESIGN F8).
pub fn static_bytes(v: Vec<u8>) -> Bytes {
    Bytes::from_static(Box::leak(v.into_boxed_slice()))
}

pub fn retained(offset: u64, timestamp: u64, id: u128, payload: Vec<u8>) -> Arc<RetainedMessage> {
    Arc::new(RetainedMessage {
        id,
        offset,
        timestamp,
        checksum: 0,
        message_state: MessageState::Available,
        headers: None,
        payload: static_bytes(payload),
    })
}

/// Minimal executor: every future in a harness is ready at each poll (the model file system and
/// the model lock never return `Pending`), so a single-threaded poll loop is a legal schedule.
pub fn block_on<F: core::future::Future>(f: F) -> F::Output {
    kani::block_on(f)
}
