//! Helpers shared by harnesses: literal-built configuration, message builders, block_on.

use crate::configs::resource_quota::MemoryResourceQuota;
use crate::configs::system::*;
use crate::streaming::models::messages::RetainedMessage;
use bytes::Bytes;
use iggy::compression::compression_algorithm::CompressionAlgorithm;
use iggy::confirmation::Confirmation;
use iggy::models::messages::MessageState;
use iggy::utils::byte_size::IggyByteSize;
use iggy::utils::duration::IggyDuration;
use iggy::utils::expiry::IggyExpiry;
use iggy::utils::topic_size::MaxTopicSize;
use std::sync::Arc;

/// `SystemConfig::default()` parses a dozen human-readable strings; harnesses build the value
/// literally instead (all fields are `pub`). Values = those of configs/server.toml unless a
/// harness overrides them.
pub fn system_config() -> SystemConfig {
    SystemConfig {
        path: String::from("d"),
        backup: BackupConfig {
            path: String::from("b"),
            compatibility: CompatibilityConfig { path: String::from("c") },
        },
        state: StateConfig {
            enforce_fsync: false,
            max_file_operation_retries: 1,
            retry_delay: IggyDuration::new(core::time::Duration::from_secs(1)),
        },
        runtime: RuntimeConfig { path: String::from("r") },
        logging: LoggingConfig {
            path: String::from("l"),
            level: String::from("info"),
            max_size: IggyByteSize::from(512_000_000u64),
            retention: IggyDuration::new(core::time::Duration::from_secs(7 * 86400)),
            sysinfo_print_interval: IggyDuration::new(core::time::Duration::from_secs(10)),
        },
        cache: CacheConfig { enabled: false, size: MemoryResourceQuota::Bytes(IggyByteSize::from(4_000_000_000u64)) },
        stream: StreamConfig { path: String::from("s") },
        topic: TopicConfig { path: String::from("t"), max_size: MaxTopicSize::Custom(IggyByteSize::from(10_000_000_000u64)), delete_oldest_segments: false },
        partition: PartitionConfig { path: String::from("p"), messages_required_to_save: 5000, enforce_fsync: false, validate_checksum: false },
        segment: SegmentConfig {
            size: IggyByteSize::from(1_000_000_000u64),
            cache_indexes: true,
            message_expiry: IggyExpiry::NeverExpire,
            archive_expired: false,
            server_confirmation: Confirmation::Wait,
        },
        encryption: EncryptionConfig { enabled: false, key: String::new() },
        compression: CompressionConfig { allow_override: false, default_algorithm: CompressionAlgorithm::None },
        message_deduplication: MessageDeduplicationConfig { enabled: false, max_entries: 1000, expiry: IggyDuration::new(core::time::Duration::from_secs(60)) },
        recovery: RecoveryConfig { recreate_missing_state: true },
    }
}

/// A static (non-promotable) `Bytes` with the given content (DESIGN F8).
pub fn static_bytes(v: Vec<u8>) -> Bytes {
    Bytes::from_static(Box::leak(v.into_boxed_slice()))
}

pub fn retained(offset: u64, timestamp: u64, id: u128, payload: Vec<u8>) -> Arc<RetainedMessage> {
    Arc::new(RetainedMessage {
        id,
        offset,
        timestamp,
        checksum: 0,
        message_state: MessageState::Available,
        headers: None,
        payload: static_bytes(payload),
    })
}

/// Minimal executor: every future in a harness is ready at each poll (the model file system and
/// the model lock never return `Pending`), so a single-threaded poll loop is a legal schedule.
pub fn block_on<F: core::future::Future>(f: F) -> F::Output {
    iggy::verif_model::fs::block_on(f)
}

// ------------------------------------------------------------------------------------------------
// Partition scenarios on the model file system
// ------------------------------------------------------------------------------------------------
use crate::streaming::batching::appendable_batch_info::AppendableBatchInfo;
use crate::streaming::partitions::partition::Partition;
use crate::streaming::persistence::persister::{FilePersister, PersisterKind};
use crate::streaming::storage::SystemStorage;
use iggy::messages::send_messages::Message;
use iggy::utils::sizeable::Sizeable;
use iggy::utils::timestamp::IggyTimestamp;
use std::sync::atomic::{AtomicU32, AtomicU64};

pub struct Counters {
    pub msgs_stream: Arc<AtomicU64>,
    pub msgs_topic: Arc<AtomicU64>,
    pub size_stream: Arc<AtomicU64>,
    pub size_topic: Arc<AtomicU64>,
    pub segs_stream: Arc<AtomicU32>,
}

pub fn counters() -> Counters {
    Counters {
        msgs_stream: Arc::new(AtomicU64::new(0)),
        msgs_topic: Arc::new(AtomicU64::new(0)),
        size_stream: Arc::new(AtomicU64::new(0)),
        size_topic: Arc::new(AtomicU64::new(0)),
        segs_stream: Arc::new(AtomicU32::new(0)),
    }
}

pub fn storage(cfg: &Arc<SystemConfig>) -> Arc<SystemStorage> {
    Arc::new(SystemStorage::new(cfg.clone(), Arc::new(PersisterKind::File(FilePersister))))
}

/// A fresh partition 1 of topic 1 / stream 1 (what `Topic::add_partitions` builds), optionally
/// persisted on the model FS (directories + first segment files, as `Partition::persist` does).
pub fn new_partition(cfg: &Arc<SystemConfig>, st: &Arc<SystemStorage>, c: &Counters, with_segment: bool, persist: bool) -> Partition {
    let mut p = block_on(Partition::create(
        1, 1, 1, with_segment, cfg.clone(), st.clone(), cfg.segment.message_expiry,
        c.msgs_stream.clone(), c.msgs_topic.clone(), c.size_stream.clone(), c.size_topic.clone(),
        c.segs_stream.clone(), IggyTimestamp::zero(),
    ));
    if persist {
        block_on(p.persist()).unwrap();
    }
    p
}

pub fn message(id: u128, payload: Vec<u8>) -> Message {
    let len = payload.len() as u32;
    Message { id, length: len, payload: static_bytes(payload), headers: None }
}

/// `typed_msg_vec!(v, m1, m2)`: a `Vec<Message>` whose buffer is a *typed* stack array instead of a heap byte array: CBMC keeps
/// field-sensitive constants for typed objects, while structs holding pointers lose them when read
/// back from `malloc`ed byte arrays (measured: a 1-message batch went from > 400 s to seconds).
/// Capacity 0 makes `Vec`/`IntoIter` skip deallocation of the foreign buffer. The vector is only
/// iterated and asked for `len()` by the code under test; it is never grown.
// (the macro itself is defined in mod.rs so that it is in textual scope of every harness file)

/// batch size exactly as `System::append_messages` computes it
pub fn batch_info(msgs: &[Message]) -> AppendableBatchInfo {
    let mut sz = IggyByteSize::default();
    let mut i = 0;
    while i < msgs.len() {
        sz += msgs[i].get_size_bytes();
        i += 1;
    }
    AppendableBatchInfo::new(sz, 1)
}

use crate::streaming::segments::Segment;

/// A stand-alone open segment (stream 1 / topic 1 / partition 1) with its own counters.
pub fn segment(start_offset: u64, cfg: Arc<SystemConfig>) -> Segment {
    Segment::create(
        1, 1, 1, start_offset, cfg, IggyExpiry::NeverExpire,
        Arc::new(AtomicU64::new(0)), Arc::new(AtomicU64::new(0)), Arc::new(AtomicU64::new(0)),
        Arc::new(AtomicU64::new(0)), Arc::new(AtomicU64::new(0)), Arc::new(AtomicU64::new(0)),
    )
}


// ------------------------------------------------------------------------------------------------
// Topic built literally (all fields are pub / pub(crate)): no async constructor, no disk access.
// ------------------------------------------------------------------------------------------------
use crate::streaming::topics::topic::Topic;
use iggy::verif_model::map::AHashMap;

pub fn new_topic(cfg: &Arc<SystemConfig>, st: &Arc<SystemStorage>, c: &Counters, max_topic_size: MaxTopicSize, message_expiry: IggyExpiry) -> Topic {
    Topic {
        stream_id: 1,
        topic_id: 1,
        name: String::new(),
        path: String::new(),
        partitions_path: String::new(),
        size_bytes: c.size_topic.clone(),
        size_of_parent_stream: c.size_stream.clone(),
        messages_count_of_parent_stream: c.msgs_stream.clone(),
        messages_count: c.msgs_topic.clone(),
        segments_count_of_parent_stream: c.segs_stream.clone(),
        config: cfg.clone(),
        partitions: AHashMap::new(),
        storage: st.clone(),
        consumer_groups: AHashMap::new(),
        consumer_groups_ids: AHashMap::new(),
        current_consumer_group_id: AtomicU32::new(1),
        current_partition_id: AtomicU32::new(1),
        message_expiry,
        compression_algorithm: CompressionAlgorithm::None,
        max_topic_size,
        replication_factor: 1,
        created_at: IggyTimestamp::zero(),
    }
}
