//! @property C02
//! @enc Segment::load_highest_lower_bound_index, binary_search_index
//! @bounds k in {1,2,3} index records, strictly increasing relative offsets and positions < 2^30; start <= end arbitrary u32
//! C02-H3 (cached index): `Segment::load_highest_lower_bound_index` / `binary_search_index`
//! select the batch that contains the first requested offset and an end that covers the last.
use super::util::*;
use crate::streaming::segments::{Index, Segment};
use std::sync::Arc;

fn lower_bound(k: usize) {
    let seg = segment(0, Arc::new(system_config()));
    // k index records: strictly increasing last-relative-offset, increasing position
    let mut idx: Vec<Index> = Vec::new();
    let mut prev_off: u32 = 0;
    let mut prev_pos: u32 = 0;
    let mut i = 0;
    while i < k {
        let off: u32 = kani::any();
        let pos: u32 = kani::any();
        if i == 0 {
            kani::assume(pos == 0);
        } else {
            kani::assume(off > prev_off && pos > prev_pos);
        }
        kani::assume(off < (1 << 30) && pos < (1 << 30));
        idx.push(Index { offset: off, position: pos, timestamp: i as u64 });
        prev_off = off;
        prev_pos = pos;
        i += 1;
    }
    let s: u32 = kani::any();
    let e: u32 = kani::any();
    kani::assume(s <= e);
    let r = seg.load_highest_lower_bound_index(&idx, s, e);
    // oracle
    let mut first_ge_s: Option<usize> = None;
    let mut first_ge_e: Option<usize> = None;
    let mut i = 0;
    while i < k {
        if first_ge_s.is_none() && idx[i].offset >= s { first_ge_s = Some(i); }
        if first_ge_e.is_none() && idx[i].offset >= e { first_ge_e = Some(i); }
        i += 1;
    }
    match first_ge_s {
        None => assert!(r.is_err()),
        Some(si) => {
            let r = r.unwrap();
            assert!(r.start == idx[si]);
            match first_ge_e {
                Some(ei) => assert!(r.end == idx[ei]),
                None => assert!(r.end == idx[k - 1]),
            }
            kani::cover!(si > 0 || k == 1, "start not in first batch");
            kani::cover!(first_ge_e.is_none(), "end clamped");
        }
    }
    core::mem::forget(seg);
}

harness! { #[kani::unwind(6)] fn c02_index_lb_k1() { lower_bound(1) } }
harness! { #[kani::unwind(6)] fn c02_index_lb_k2() { lower_bound(2) } }
harness! { #[kani::unwind(6)] fn c02_index_lb_k3() { lower_bound(3) } }
