//! @property C15
//! @enc Topic::append_messages (size gate, de-asynced twin), Topic::is_full, Topic::is_almost_full, Topic::is_unlimited, Topic::get_max_topic_size
//! @bounds topic size any u64; limit in {Unlimited, ServerDefault, Custom(x), x any u64 in 1..2^63}; delete_oldest_segments any bool; segment size any u64 < 2^62; one Balanced send of 1 message to a topic reporting 1 partition (the partition lookup ends the run right after the gate)
//! @model AHashMap -> fixed array map with symbolic len() knob
//! @assume is_almost_full is only bracketed (full => almost full; below half the limit => not almost full): the exact 90% point goes through an f64 multiplication that CBMC's float bit-blasting does not decide within the cap
//! @out the deletion I/O of the maintenance pass (C14); f64 rounding of the 90% threshold above 2^53 bytes
use super::su::*;
use super::util::system_config;
use crate::verif::sync::streaming::topics::topic::Topic;
use iggy::error::IggyError;
use iggy::messages::send_messages::Partitioning;
use iggy::utils::byte_size::IggyByteSize;
use iggy::utils::expiry::IggyExpiry;
use iggy::utils::topic_size::MaxTopicSize;
use std::sync::atomic::Ordering;
use std::sync::Arc;

fn any_limit() -> MaxTopicSize {
    let k: u8 = kani::any();
    let x: u64 = kani::any();
    kani::assume(x >= 1 && x < (1u64 << 63));
    match k % 3 {
        0 => MaxTopicSize::Unlimited,
        1 => MaxTopicSize::ServerDefault,
        _ => MaxTopicSize::Custom(IggyByteSize::from(x)),
    }
}

// H1: the gate refuses exactly when (Custom limit) && size >= limit && deletion of oldest segments disabled
harness_sync! {
  #[kani::stub(crate::verif::sync::streaming::partitions::partition::Partition::append_messages, crate::verif::su::cut_partition_append)]
  #[kani::unwind(6)] fn c15_gate_refuses_iff_full_and_no_deletion() {
    let mut sc = system_config();
    let delete_oldest: bool = kani::any();
    sc.topic.delete_oldest_segments = delete_oldest;
    typed_arc!(cfg: crate::configs::system::SystemConfig = sc);
    let st = storage(&cfg);
    let c = counters();
    let limit = any_limit();
    let mut t = new_topic(&cfg, &st, &c, limit, IggyExpiry::NeverExpire);
    t.partitions.verif_set_len_override(Some(1));
    let size: u64 = kani::any();
    t.size_bytes.store(size, Ordering::SeqCst);
    typed_msg_vec!(msgs, message(1, vec![0]));
    let r = t.append_messages(IggyByteSize::from(42u64), Partitioning::balanced(), msgs, None);
    let full = match limit {
        MaxTopicSize::Custom(x) => size >= x.as_bytes_u64(),
        _ => false,
    };
    let must_refuse = full && !delete_oldest;
    match r {
        Err(IggyError::TopicFull(_, _)) => assert!(must_refuse, "send refused although the topic is not full or deletion of oldest segments is enabled"),
        // accepted by the gate: the run then stops at the (empty) partition table
        Err(IggyError::PartitionNotFound(_, _, _)) => assert!(!must_refuse, "send accepted although the topic is full and deletion of oldest segments is disabled"),
        _ => assert!(false, "unexpected outcome"),
    }
    // a refused send changes nothing
    assert!(t.size_bytes.load(Ordering::SeqCst) == size);
    assert!(t.get_messages_count() == 0);
    kani::cover!(must_refuse, "full and no deletion");
    kani::cover!(full && delete_oldest, "full but deletion enabled");
    core::mem::forget(t);
    core::mem::forget(st);
    core::mem::forget(cfg);
} }

// H2: a limit smaller than one segment is rejected, ServerDefault resolves to the configured value
harness! { fn c15_limit_validation() {
    let mut sc = system_config();
    let seg: u64 = kani::any();
    kani::assume(seg < (1u64 << 62));
    sc.segment.size = IggyByteSize::from(seg);
    let dflt = any_limit();
    sc.topic.max_size = dflt;
    let req = any_limit();
    let r = crate::streaming::topics::topic::Topic::get_max_topic_size(req, &sc);
    match req {
        MaxTopicSize::ServerDefault => assert!(r == Ok(dflt)),
        MaxTopicSize::Unlimited => assert!(r == Ok(MaxTopicSize::Unlimited)),
        MaxTopicSize::Custom(x) => {
            if x.as_bytes_u64() >= seg {
                assert!(r == Ok(req));
            } else {
                assert!(r.is_err());
            }
        }
    }
    kani::cover!(r.is_err(), "limit below one segment rejected");
    core::mem::forget(sc);
} }

// H3: is_full / is_almost_full / is_unlimited decision table
harness_sync! { fn c15_fullness_predicates() {
    typed_arc!(cfg: crate::configs::system::SystemConfig = system_config());
    let st = storage(&cfg);
    let c = counters();
    let limit = any_limit();
    let t = new_topic(&cfg, &st, &c, limit, IggyExpiry::NeverExpire);
    let size: u64 = kani::any();
    t.size_bytes.store(size, Ordering::SeqCst);
    match limit {
        MaxTopicSize::Custom(x) => {
            let x = x.as_bytes_u64();
            assert!(t.is_full() == (size >= x));
            assert!(!t.is_unlimited());
            // full implies almost full; far below the limit is not almost full
            if size >= x { assert!(t.is_almost_full()); }
            // well below the limit (less than half) is never "almost full"
            if size < x / 2 { assert!(!t.is_almost_full()); }
        }
        MaxTopicSize::Unlimited => { assert!(!t.is_full() && !t.is_almost_full() && t.is_unlimited()); }
        MaxTopicSize::ServerDefault => { assert!(!t.is_full() && !t.is_almost_full() && !t.is_unlimited()); }
    }
    kani::cover!(t.is_almost_full() && !t.is_full(), "almost full but not full");
    core::mem::forget(t);
    core::mem::forget(st);
    core::mem::forget(cfg);
} }
