//! @property C14
//! @enc Segment::is_expired, Segment::is_full, Partition::get_expired_segments_start_offsets (de-asynced twins)
//! @bounds segment closed/open symbolic; message_expiry in {NeverExpire, ServerDefault, ExpireDuration(d s), d any u32}; newest message timestamp and `now` any instant < 2^52 us; two segments (first closed or open, last open) for the partition-level selection
//! @stub Segment::get_messages_by_offset(current_offset, 1) -> summary: returns the stored newest message with a symbolic timestamp (its contract - exact slice - is C02's subject)
//! @out deletion I/O and the timer/executor of the maintenance job; IggyTimestamp/Duration unit conversion (clock representation stubbed, see stubs.rs)
use super::su::*;
use super::util::system_config;
use crate::verif::sync::streaming::models::messages::RetainedMessage;
use crate::verif::sync::streaming::segments::Segment;
use iggy::error::IggyError;
use iggy::utils::byte_size::IggyByteSize;
use iggy::utils::duration::IggyDuration;
use iggy::utils::expiry::IggyExpiry;
use iggy::utils::timestamp::IggyTimestamp;
use std::sync::Arc;

static mut NEWEST_TS: u64 = 0;

/// summary of Segment::get_messages_by_offset for the single call is_expired makes
pub fn newest_message_summary(s: &Segment, offset: u64, count: u32) -> Result<Vec<Arc<RetainedMessage>>, IggyError> {
    assert!(offset == s.current_offset && count == 1, "is_expired must ask for the newest message of the segment");
    Ok(vec![retained(offset, unsafe { NEWEST_TS }, 1, vec![0])])
}

fn any_expiry() -> (IggyExpiry, u64) {
    let k: u8 = kani::any();
    let d: u32 = kani::any();
    match k % 3 {
        0 => (IggyExpiry::NeverExpire, 0),
        1 => (IggyExpiry::ServerDefault, 0),
        _ => (IggyExpiry::ExpireDuration(IggyDuration::new(core::time::Duration::new(d as u64, 0))), d as u64 * 1_000_000),
    }
}

harness_sync! {
  #[kani::stub(crate::verif::sync::streaming::segments::segment::Segment::get_messages_by_offset, crate::verif::c14_expiry::newest_message_summary)]
  #[kani::unwind(4)]
  fn c14_segment_expired_iff_closed_and_old() {
    typed_arc!(cfg: crate::configs::system::SystemConfig = system_config());
    let mut seg = segment(0, cfg.clone());
    let (exp, d_us) = any_expiry();
    seg.message_expiry = exp;
    seg.is_closed = kani::any();
    seg.current_offset = kani::any();
    let ts: u64 = kani::any();
    let now: u64 = kani::any();
    kani::assume(ts < (1 << 52) && now < (1 << 52));
    unsafe { NEWEST_TS = ts; }
    let got = seg.is_expired(IggyTimestamp::from(now));
    let want = seg.is_closed && matches!(exp, IggyExpiry::ExpireDuration(_)) && ts + d_us <= now;
    assert!(got == want, "expiry decision differs from: closed && finite expiry && newest message older than the expiry");
    kani::cover!(got, "expired");
    kani::cover!(!got && seg.is_closed && matches!(exp, IggyExpiry::ExpireDuration(_)), "closed but still young");
    core::mem::forget(seg);
    core::mem::forget(cfg);
} }

// contract of `summary_is_full_open` (used by the C01/C18 step harnesses): an open segment is full
// exactly when its size reached the configured segment size - it is never "expired".
harness_sync! {
  #[kani::stub(crate::verif::sync::streaming::segments::segment::Segment::get_messages_by_offset, crate::verif::c14_expiry::newest_message_summary)]
  #[kani::unwind(4)]
  fn c14_open_segment_full_iff_size() {
    typed_arc!(cfg: crate::configs::system::SystemConfig = system_config());
    let mut seg = segment(0, cfg.clone());
    let (exp, _d) = any_expiry();
    seg.message_expiry = exp;
    seg.is_closed = false;
    let size: u64 = kani::any();
    let max: u64 = kani::any();
    seg.size_bytes = IggyByteSize::from(size);
    seg.max_size_bytes = IggyByteSize::from(max);
    unsafe { NEWEST_TS = kani::any(); }
    let got = seg.is_full();
    assert!(got == (size >= max));
    kani::cover!(got, "full");
    kani::cover!(!got, "not full");
    core::mem::forget(seg);
    core::mem::forget(cfg);
} }

// partition level: only closed, expired segments are named; the open last segment never is
harness_sync! {
  #[kani::stub(crate::verif::sync::streaming::segments::segment::Segment::get_messages_by_offset, crate::verif::c14_expiry::newest_message_summary)]
  #[kani::unwind(5)]
  fn c14_partition_names_only_closed_expired_segments_t() {
    typed_arc!(cfg: crate::configs::system::SystemConfig = system_config());
    let st = storage(&cfg);
    let c = counters();
    let mut p = new_partition(&cfg, &st, &c, true, false);
    let mut second = segment(10, cfg.clone());
    let (exp, d_us) = any_expiry();
    let first_closed: bool = kani::any();
    {
        let s0 = p.segments.last_mut().unwrap();
        s0.message_expiry = exp;
        s0.is_closed = first_closed;
        s0.current_offset = 9;
        s0.end_offset = 9;
    }
    second.message_expiry = exp;
    second.is_closed = false; // the segment being written
    second.current_offset = 12;
    p.segments.push(second);
    typed_segments!(p);
    let ts: u64 = kani::any();
    let now: u64 = kani::any();
    kani::assume(ts < (1 << 52) && now < (1 << 52));
    unsafe { NEWEST_TS = ts; }
    let got = p.get_expired_segments_start_offsets(IggyTimestamp::from(now));
    let first_expired = first_closed && matches!(exp, IggyExpiry::ExpireDuration(_)) && ts + d_us <= now;
    if first_expired {
        assert!(got.len() == 1 && got[0] == 0);
    } else {
        assert!(got.is_empty());
    }
    kani::cover!(first_expired, "oldest segment expired");
    core::mem::forget(got);
    core::mem::forget(p);
    core::mem::forget(st);
    core::mem::forget(cfg);
} }
